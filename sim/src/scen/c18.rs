//! C18 — tenant quotas hold under every interleaving of writers.
//!
//! Sim: 2–3 REAL OS threads each call `persist_create_node` / `persist_create_edge` for
//! distinct ids against a quota of 1–2.  Every thread parks at a synthetic `start` point,
//! at every H4 point inside `persist_create_*` and (hook H7) BEFORE every acquisition of a
//! `TenantManager` lock (`lock.read` / `lock.write`); the controller (`kit::threads`)
//! releases exactly one parked thread at a time, chosen by the pre-drawn scheduler picks
//! of the case — the interleaving is the simulator's decision and replays exactly.
//! Afterwards `recover` is called 1–2 times — on the same manager, or after a restart, or
//! after a restart that first accepts further creations (the manager of a restarted
//! process knows nothing of what is stored until `recover` tells it) — and a further
//! sequential creation is attempted.
//!
//! Quota shapes: each resource of the tenant either has a limit of 1–2 from the start or
//! has NO limit configured (`None`); a limit can be introduced later with
//! `TenantManager::update_quotas` (controller thread, between phases), followed by further
//! sequential creations on the same manager.  Fault kind `wal_io_error`: in some runs the
//! WAL lives on `kit::simfs::SimFs` and one chosen file-system call of the WAL (the `open`
//! of a new log file after start / after a checkpoint, or a `write`) fails; the creation
//! that hits it must be refused, leave nothing behind and leave the counters equal to what
//! is stored.

use crate::kit::core::*;
use crate::kit::model::*;
use crate::kit::pers::*;
use crate::kit::rng::Streams;
use crate::kit::simfs::SimFs;
use crate::kit::threads::{interleavings, ThreadCtl};
use samyama::graph::PropertyMap;
use samyama::persistence::{PersistenceError, PersistenceManager, ResourceQuotas, TenantError};
use samyama::verif::PointHandler;
use serde_json::{json, Map, Value};
use std::collections::{BTreeMap, BTreeSet};
use std::path::Path;
use std::sync::{Arc, Mutex};

pub struct C18;

const TENANT: &str = "q";
const KINDS: [&str; 2] = ["nodes", "edges"];

#[derive(Clone, Debug)]
struct Attempt {
    who: String,
    kind: usize,
    id: u64,
    ok: bool,
    quota_error: bool,
    /// the call failed with PersistenceError::Wal (only expected under an injected WAL fault)
    wal_error: bool,
    err: String,
}

type Quota = [Option<usize>; 2];

fn quotas_of(q: Quota) -> ResourceQuotas {
    let mut r = ResourceQuotas::unlimited();
    r.max_nodes = q[0];
    r.max_edges = q[1];
    r
}

fn qdesc(q: Quota) -> String {
    let d = |x: Option<usize>| x.map(|v| v.to_string()).unwrap_or_else(|| "none".into());
    format!("nodes={} edges={}", d(q[0]), d(q[1]))
}

fn open(dir: &Path, q: Quota) -> Result<PersistenceManager, String> {
    let pm = PersistenceManager::new(dir).map_err(|e| format!("open: {e}"))?;
    pm.tenants().create_tenant(TENANT.to_string(), "quota tenant".to_string(), Some(quotas_of(q))).map_err(|e| format!("create_tenant: {e}"))?;
    Ok(pm)
}

/// `payload` > 0: the entity carries one string property of that many bytes (a WAL record
/// larger than the log's write buffer goes to the file system at once).
fn create(pm: &PersistenceManager, who: &str, kind: usize, id: u64, payload: usize) -> Attempt {
    let mut props = PropertyMap::new();
    if payload > 0 {
        props.insert("blob".to_string(), samyama::graph::PropertyValue::String("x".repeat(payload)));
    }
    let r = if kind == 0 {
        pm.persist_create_node(TENANT, &mk_node(id, &["Q".to_string()], props))
    } else {
        pm.persist_create_edge(TENANT, &mk_edge(id, 1, 1, "R", props))
    };
    match r {
        Ok(()) => Attempt { who: who.to_string(), kind, id, ok: true, quota_error: false, wal_error: false, err: String::new() },
        Err(e) => {
            let quota_error = matches!(e, PersistenceError::Tenant(TenantError::QuotaExceeded { .. }));
            let wal_error = matches!(e, PersistenceError::Wal(_));
            Attempt { who: who.to_string(), kind, id, ok: false, quota_error, wal_error, err: e.to_string() }
        }
    }
}

struct Check<'a> {
    pm: &'a PersistenceManager,
    /// the limits configured at this moment (None = no limit on that resource)
    quota: Quota,
    /// the limits that were configured while the concurrent writers ran
    writers_quota: Quota,
    /// how many injected WAL I/O errors fired so far (each may refuse one creation)
    wal_faults_fired: u64,
    out: Vec<Violation>,
    sched: String,
}

impl<'a> Check<'a> {
    fn fail(&mut self, sig: String, detail: String, step: usize) {
        if self.out.len() < 8 {
            self.out.push(Violation::new(sig, format!("{detail}; quota {}; schedule: {}", qdesc(self.quota), self.sched), step));
        }
    }
    fn stored(&mut self, kind: usize, step: usize) -> Option<BTreeMap<u64, usize>> {
        let ids: Result<Vec<u64>, String> = if kind == 0 {
            self.pm.storage().scan_nodes(TENANT).map(|v| v.iter().map(|n| n.id.as_u64()).collect()).map_err(|e| e.to_string())
        } else {
            self.pm.storage().scan_edges(TENANT).map(|v| v.iter().map(|n| n.id.as_u64()).collect()).map_err(|e| e.to_string())
        };
        match ids {
            Ok(v) => {
                let mut m = BTreeMap::new();
                for i in v {
                    *m.entry(i).or_insert(0) += 1;
                }
                Some(m)
            }
            Err(e) => {
                self.fail(format!("C18/scan_error/{}", KINDS[kind]), e, step);
                None
            }
        }
    }
    fn usage(&mut self, kind: usize, step: usize) -> Option<usize> {
        match self.pm.tenants().get_usage(TENANT) {
            Ok(u) => Some(if kind == 0 { u.node_count } else { u.edge_count }),
            Err(e) => {
                self.fail(format!("C18/usage_error/{}", KINDS[kind]), e.to_string(), step);
                None
            }
        }
    }
    /// The full oracle at a quiescent moment; `phase` names when.
    fn all(&mut self, attempts: &[Attempt], phase: &str, step: usize) {
        for kind in 0..2 {
            let k = KINDS[kind];
            let accepted: BTreeSet<u64> = attempts.iter().filter(|a| a.kind == kind && a.ok).map(|a| a.id).collect();
            let refused: BTreeSet<u64> = attempts.iter().filter(|a| a.kind == kind && !a.ok).map(|a| a.id).collect();
            if let (true, Some(q)) = (phase.starts_with("after_writers"), self.writers_quota[kind]) {
                if accepted.len() > q {
                    self.fail(
                        format!("C18/quota_exceeded/{k}/concurrent_writers"),
                        format!("{} {k} accepted ({:?}) with a quota of {q}", accepted.len(), attempts.iter().filter(|a| a.kind == kind && a.ok).map(|a| format!("{}:{}", a.who, a.id)).collect::<Vec<_>>()),
                        step,
                    );
                }
            }
            // a creation may be refused by the quota, or — once per injected WAL I/O error
            // that fired — by the log; anything else is not a refusal the scenario causes
            let wal_refused = attempts.iter().filter(|a| !a.ok && a.wal_error).count() as u64;
            for a in attempts.iter().filter(|a| a.kind == kind && !a.ok && !a.quota_error) {
                if a.wal_error && wal_refused <= self.wal_faults_fired {
                    continue;
                }
                self.fail(format!("C18/unexpected_error/{k}"), format!("{} creating {k} id {} failed with '{}' (not a quota refusal)", a.who, a.id, a.err), step);
            }
            let Some(stored) = self.stored(kind, step) else { continue };
            for id in &refused {
                if stored.contains_key(id) {
                    self.fail(format!("C18/refused_left_key/{k}"), format!("creation of {k} id {id} was refused but its key is in storage"), step);
                }
            }
            for id in &accepted {
                if !stored.contains_key(id) {
                    self.fail(format!("C18/accepted_not_stored/{k}"), format!("creation of {k} id {id} was accepted but storage does not hold it"), step);
                }
            }
            for (id, n) in &stored {
                if *n > 1 {
                    self.fail(format!("C18/stored_twice/{k}"), format!("{k} id {id} returned {n} times by the scan"), step);
                }
                if !accepted.contains(id) && !refused.contains(id) {
                    self.fail(format!("C18/phantom_key/{k}"), format!("{k} id {id} in storage was never created"), step);
                }
            }
            let n_stored: usize = stored.values().sum();
            if let Some(u) = self.usage(kind, step) {
                if u != n_stored {
                    // state class: whether a limit is configured for the resource right now
                    let lim = if self.quota[kind].is_none() { "/no_limit_configured" } else { "" };
                    self.fail(format!("C18/usage_vs_stored/{k}/{phase}{lim}"), format!("get_usage reports {u} {k}, storage holds {n_stored}"), step);
                }
            }
        }
    }
}

impl Scenario for C18 {
    fn id(&self) -> &'static str {
        "C18"
    }
    fn runs(&self, tier: Tier) -> u64 {
        match tier {
            Tier::Quick => 600,
            Tier::Thorough => 40000,
        }
    }
    fn rule(&self) -> &'static str {
        "case = quota (1..2 nodes, 1..2 edges), 0..1 sequential creations before, 2..3 writer threads each performing 1..2 persist_create_node/edge calls for distinct ids, a pre-drawn list of scheduler picks (one per decision, taken modulo the parked threads), then 1..2 recover calls on the same manager (1 run in 3 after a restart; 1 run in 3 after a restart on the same directory that first accepts 1..2 further creations, i.e. recover runs on a manager whose counters are already running) and a final sequential creation per kind. Threads are real; they park at 'start', at every H4 point and before every TenantManager lock acquisition (hook H7: lock.read / lock.write); exactly one runs at a time. Non-trivial = at least two writers were simultaneously inside the admission window (between entering the quota reservation and their usage update), or simultaneously parked before a TenantManager lock acquisition. Distinct = hash of (quotas, writer programs, executed schedule with threads renamed by first appearance, recover plan). Quota shapes (knobs limit_nodes/limit_edges): both resources limited (5 in 10), only nodes / only relationships limited (2 in 10 each), nothing limited (1 in 10); such runs (and 1 in 6 of the others) continue, between the writers and the recovery part, with an optional update_quotas that introduces/replaces the limits (1..2) followed by 1..2 sequential creations on the same manager, and 1 in 3 of them have no recover call at all. Fault kind wal_io_error (1 run in 4): the WAL directory lives on kit::simfs::SimFs, half of these runs use 9000-byte WAL records (larger than the log's write buffer, so every append is file-system calls), an optional checkpoint after the sequential creation closes the current log file, and the nth (0..3) WAL file-system call counted from the start of the writers (or of the sequential creations after them) fails with EIO / ENOSPC / EACCES; restart and recovery run fault-free."
    }
    fn real_components(&self) -> Vec<&'static str> {
        vec![
            "samyama::persistence::PersistenceManager::persist_create_node / persist_create_edge / recover on real OS threads",
            "samyama::persistence::TenantManager (real RwLocks)",
            "samyama::persistence::PersistentStorage over real RocksDB on tmpfs; Wal (real files, real Mutex; in runs with knob wal_on_simfs the WAL's files are on kit::simfs::SimFs behind samyama::verif::fs)",
            "samyama::persistence::TenantManager::update_quotas, PersistenceManager::checkpoint",
        ]
    }
    fn stub_components(&self) -> Vec<&'static str> {
        vec!["the OS scheduler is replaced by kit::threads::ThreadCtl: threads only switch at 'start', at the H4 points and before each TenantManager lock acquisition (H7)"]
    }
    fn assumptions(&self) -> Vec<&'static str> {
        vec![
            "the H4 points sit outside every lock scope (verified by reading persist_create_*: the TenantManager guards live inside reserve_quota/decrement_usage, the WAL MutexGuard is a temporary of one statement), so a released thread never blocks on a thread parked there; a 30 s watchdog turns a violation of this into a reported panic instead of a hang",
            "H7 lock points are reported BEFORE the acquisition, never while holding the lock being acquired, so a thread parked there holds at most the locks of enclosing scopes: in TenantManager that is the `tenants` READ guard (reserve_quota / check_quota take tenants.read(), then usage.write()/read()). The writers of this scenario only ever take tenants.read(), which a parked reader does not block (no thread requests tenants.write() while writers run: create_tenant / delete_tenant / update_* are only called by the controller thread between phases). A future TenantManager method that parks holding a WRITE guard, or a writer program that calls a tenants.write() method, would block the others: the watchdog reports that as a panic, it does not hang",
            "every critical section of TenantManager is one lock acquisition (or a nested pair) and is atomic between two H7 points; check-then-act split over two acquisitions — in any shape — therefore has a schedule point in the gap. Interleavings inside RocksDB / the WAL Mutex (inside put_node, inside append) are not explored: each is one call that takes and releases its own lock",
            "a restarted manager that accepts creations before recover(tenant) ran may legitimately exceed the quota (it cannot know what is stored); the oracle demands only what the statement says: after recover the counters equal what is stored, and from then on nothing is accepted at or above the quota",
            "'accepted' = the call returned Ok; 'refused' = it returned an error; the statement does not require that a creation is accepted while room remains, so under-admission is a probe, not a violation",
            "a resource without a configured limit has no quota to exceed, but the statement's last clause (usage counters == entities persisted) has no such condition, so it is checked for every resource; once update_quotas has introduced a limit, a manager that has itself seen every creation (no restart) or has recovered the tenant must not accept a creation while storage holds >= the limit",
            "under the injected WAL I/O error a creation may fail with PersistenceError::Wal — at most one creation per error that fired; it counts as a refused creation (must leave nothing behind, counters must equal what is stored). What the failed call leaves in the WAL files is not this property's subject",
            "only the tenant under test holds data, so scan_nodes/scan_edges (whose prefix scan is C17's subject) return exactly its keys",
        ]
    }
    fn required_probes(&self, _tier: Tier) -> Vec<&'static str> {
        vec![
            "both_passed_quota_check",
            "writer_refused",
            "three_writers",
            "recover_twice",
            "restart_before_recover",
            "post_recover_creation_refused",
            "two_writers_parked_before_lock_acquisition",
            "writer_parked_between_two_lock_acquisitions_of_one_call",
            "creation_on_restarted_manager_before_recover",
            "recover_on_manager_with_running_counters_and_stored_data",
            "tenant_with_resource_without_limit",
            "limit_introduced_later",
            "creation_refused_after_limit_introduced",
            "creation_refused_by_failed_wal_append",
            "wal_append_failed_for_tenant_with_counted_entities",
        ]
    }
    fn extra_evidence(&self, _tier: Tier) -> Map<String, Value> {
        let mut m = Map::new();
        // every persist_create_* call = 7 scheduler releases when accepted (start|previous point,
        // lock.read [tenants], lock.write [usage], after_quota, after_wal, after_put, after_usage)
        m.insert(
            "schedule_space".into(),
            json!({
                "2_writers_x_1_create": interleavings(&[7, 7]).to_string(),
                "3_writers_x_1_create": interleavings(&[7, 7, 7]).to_string(),
                "2_writers_x_2_creates": interleavings(&[13, 13]).to_string(),
                "3_writers_x_2_creates": interleavings(&[13, 13, 13]).to_string(),
                "note": "multinomial count of release orders when every call is accepted; refused calls have fewer points, so the real space is smaller. 'distinct_nontrivial' in coverage is the number of distinct (program, executed schedule) classes reached."
            }),
        );
        m
    }
    fn generate(&self, s: &mut Streams, _run_index: u64, _tier: Tier) -> Case {
        let mut case = Case::new("C18");
        case.knobs.insert("quota_nodes".into(), json!(1 + s.knobs.below(2)));
        case.knobs.insert("quota_edges".into(), json!(1 + s.knobs.below(2)));
        case.knobs.insert("restart_before_recover".into(), json!(s.knobs.chance(1, 3)));
        let writers = if s.knobs.chance(1, 3) { 3 } else { 2 };
        let edge_bias = s.knobs.below(4); // 0: nodes only (the property's own quantifier), else mixed
        let write_before_recover = s.knobs.chance(1, 3);
        // quota shape: 0 = both resources limited (the property's own quantifier), 1 = only
        // nodes limited, 2 = only relationships limited, 3 = nothing limited
        let shape = s.knobs.weighted(&[5, 2, 2, 1]);
        case.knobs.insert("limit_nodes".into(), json!(shape == 0 || shape == 1));
        case.knobs.insert("limit_edges".into(), json!(shape == 0 || shape == 2));
        // fault kind wal_io_error: the WAL lives on SimFs and one of its calls fails
        let wal_fault = s.knobs.chance(1, 4);
        case.knobs.insert("wal_on_simfs".into(), json!(wal_fault));
        // WAL records larger than the log's write buffer (every append reaches the file system)
        case.knobs.insert("payload".into(), json!(if wal_fault && s.knobs.chance(1, 2) { 9000 } else { 0 }));
        let r = &mut s.workload;
        let pre_chance = if wal_fault || shape != 0 { 2 } else { 1 };
        if r.chance(pre_chance, 4) {
            case.events.push(json!({"op":"pre","kind": if edge_bias == 0 { 0 } else { r.below(2) }}));
            if wal_fault && r.chance(1, 2) {
                // PersistenceManager::checkpoint closes the current log file: the next append opens a new one
                case.events.push(json!({"op":"checkpoint"}));
            }
        }
        if wal_fault {
            // the nth file-system call of the WAL from the start of the writers phase fails
            let fr = &mut s.fault;
            let phase = fr.below(2);
            case.events.push(json!({"op":"walfail","phase":phase,"nth":fr.weighted(&[4, 2, 1, 1]),"err":fr.below(3)}));
            // the H7 lock points are only sound while no thread parks holding a lock another
            // one needs (see assumptions); that was verified for the success and quota-refusal
            // paths.  Where the fault drives writers through the I/O-failure path the threads
            // switch at the H4 points only.
            case.knobs.insert("lock_points".into(), json!(phase != 0));
        }
        for _ in 0..writers {
            let n = if r.chance(1, 4) { 2 } else { 1 };
            let first = if edge_bias == 0 || r.chance(2, 3) { 0 } else { 1 };
            let kinds: Vec<u64> = (0..n).map(|i| if i == 0 { first } else if edge_bias == 0 { 0 } else { r.below(2) }).collect();
            case.events.push(json!({"op":"writer","kinds":kinds}));
        }
        let sr = &mut s.sched;
        for _ in 0..48 {
            case.events.push(json!({"op":"sched","pick":sr.below(6)}));
        }
        let r = &mut s.workload;
        if shape != 0 || wal_fault || r.chance(1, 6) {
            // between phases (controller thread): a limit is introduced for the resources that
            // had none / the limits are replaced; then sequential creations on the same manager
            if r.chance(3, 4) {
                case.events.push(json!({"op":"setq","nodes":1 + r.below(2),"edges":1 + r.below(2)}));
            }
            for _ in 0..1 + r.below(2) {
                if wal_fault && r.chance(1, 2) {
                    case.events.push(json!({"op":"midckpt"}));
                }
                case.events.push(json!({"op":"mid","kind": if edge_bias == 0 && shape == 0 { 0 } else { r.below(2) }}));
            }
        }
        let recs = if shape != 0 && r.chance(1, 3) { 0 } else { 1 + r.below(2) };
        if write_before_recover {
            // a restarted process that accepts creations before it recovers the tenant
            let n = 1 + s.knobs.below(2);
            for _ in 0..n {
                let kind = if edge_bias == 0 { 0 } else { s.knobs.below(2) };
                case.events.push(json!({"op":"rwrite","kind":kind}));
            }
        }
        for _ in 0..recs {
            case.events.push(json!({"op":"recover"}));
        }
        case.events.push(json!({"op":"post","kind":0}));
        if edge_bias != 0 || shape != 0 {
            case.events.push(json!({"op":"post","kind":1}));
        }
        case
    }
    fn shrink_event(&self, ev: &Value) -> Vec<Value> {
        match op(ev) {
            "writer" => vec![json!({"op":"writer","kinds":[0]})],
            "sched" => vec![json!({"op":"sched","pick":0})],
            _ => vec![],
        }
    }
    fn execute(&self, case: &Case) -> Outcome {
        let mut o = Outcome::new();
        let rd = RunDir::new("c18", case.run_index);
        let dir = rd.sub("db");
        let qn = case.knob_u64("quota_nodes", 1).max(1) as usize;
        let qe = case.knob_u64("quota_edges", 1).max(1) as usize;
        let restart = case.knob_bool("restart_before_recover", false);
        // the limits configured from the start (None = no limit for that resource)
        let q0: Quota = [if case.knob_bool("limit_nodes", true) { Some(qn) } else { None }, if case.knob_bool("limit_edges", true) { Some(qe) } else { None }];
        let mut quota: Quota = q0;
        if q0.iter().any(|q| q.is_none()) {
            o.probe("tenant_with_resource_without_limit");
        }
        let payload = case.knob_u64("payload", 0).min(20_000) as usize;
        // the WAL on the simulated disk (RocksDB stays on the real one); uninstalled at the end
        struct FsGuard(Option<Arc<SimFs>>);
        impl Drop for FsGuard {
            fn drop(&mut self) {
                if self.0.is_some() {
                    SimFs::uninstall();
                }
            }
        }
        let fsg = FsGuard(if case.knob_bool("wal_on_simfs", false) { Some(SimFs::new()) } else { None });
        if let Some(fs) = &fsg.0 {
            fs.install();
        }
        let walfail: Option<(u64, u64, std::io::ErrorKind)> = case.events.iter().find(|e| op(e) == "walfail").filter(|_| fsg.0.is_some()).map(|e| {
            let kind = match u(e, "err") % 3 {
                0 => std::io::ErrorKind::Other,
                1 => std::io::ErrorKind::StorageFull,
                _ => std::io::ErrorKind::PermissionDenied,
            };
            (u(e, "phase") % 2, u(e, "nth") % 8, kind)
        });
        let fired = |fsg: &FsGuard| -> u64 { fsg.0.as_ref().map(|f| f.faults_fired().iter().filter(|(k, _)| k.starts_with("io_error.")).map(|(_, n)| *n).sum()).unwrap_or(0) };
        let arm = |fsg: &FsGuard, phase: u64| {
            if let (Some(fs), Some((ph, nth, kind))) = (&fsg.0, walfail) {
                if ph == phase && fs.faults_fired().is_empty() {
                    fs.set_fail(Some((fs.op_count() + nth, kind)));
                }
            }
        };
        let pm = match open(&dir, q0) {
            Ok(p) => Arc::new(p),
            Err(e) => {
                o.violate(Violation::new("C18/open/error", e, 0));
                return o;
            }
        };
        let mut next_id = [1u64, 1u64];
        let mut attempts: Vec<Attempt> = Vec::new();
        let mut class_parts: Vec<String> = vec![format!("q{}|p{payload}|f{:?}", qdesc(q0), walfail.map(|w| (w.0, w.1)))];
        // ---- sequential creations before the writers
        for ev in case.events.iter().filter(|e| op(e) == "pre" || op(e) == "checkpoint") {
            if op(ev) == "checkpoint" {
                if let Err(e) = pm.checkpoint() {
                    o.violate(Violation::new("C18/checkpoint/error", e.to_string(), 0));
                }
                class_parts.push("ckpt".into());
                o.steps += 1;
                continue;
            }
            let kind = (u(ev, "kind") % 2) as usize;
            let id = next_id[kind];
            next_id[kind] += 1;
            attempts.push(create(&pm, "pre", kind, id, payload));
            class_parts.push(format!("pre{kind}"));
            o.steps += 1;
        }
        // ---- fault: one WAL file-system call from here on fails
        arm(&fsg, 0);
        let counted_before_writers = attempts.iter().filter(|a| a.ok).count();
        // ---- writers
        let programs: Vec<Vec<(usize, u64)>> = case
            .events
            .iter()
            .filter(|e| op(e) == "writer")
            .take(4)
            .map(|e| {
                e["kinds"]
                    .as_array()
                    .map(|a| a.iter().take(3).map(|k| (k.as_u64().unwrap_or(0) % 2) as usize).collect::<Vec<_>>())
                    .unwrap_or_else(|| vec![0])
                    .into_iter()
                    .map(|kind| {
                        let id = next_id[kind];
                        next_id[kind] += 1;
                        (kind, id)
                    })
                    .collect()
            })
            .collect();
        let picks: Vec<u64> = case.events.iter().filter(|e| op(e) == "sched").map(|e| u(e, "pick")).collect();
        let mut sched_desc = String::from("(no writers)");
        let mut overlap = false;
        let mut lock_overlap = false;
        let mut split_call = false;
        if !programs.is_empty() {
            if programs.len() >= 3 {
                o.probe("three_writers");
            }
            let ctl = ThreadCtl::new(programs.len());
            ctl.install();
            // H7: the same controller also receives the lock-acquisition points
            if case.knob_bool("lock_points", true) {
                samyama::verif::sync::set_lock_handler(Some(ctl.clone() as Arc<dyn PointHandler>));
            }
            let results: Arc<Mutex<Vec<Attempt>>> = Arc::new(Mutex::new(Vec::new()));
            let mut handles = Vec::new();
            for (ix, prog) in programs.iter().enumerate() {
                let pm2 = pm.clone();
                let res2 = results.clone();
                let prog = prog.clone();
                handles.push(ctl.spawn(ix, move || {
                    for (kind, id) in prog {
                        let a = create(&pm2, &format!("w{ix}"), kind, id, payload);
                        res2.lock().unwrap_or_else(|e| e.into_inner()).push(a);
                    }
                }));
            }
            let mut di = 0usize;
            let run = ctl.run_schedule(|parked| {
                // probe: two writers of the same kind both past their quota check, neither past its usage update
                for kind in ["create_node", "create_edge"] {
                    let inside = parked
                        .iter()
                        .filter(|(_, p)| p.starts_with(&format!("persist.{kind}.")) && !p.ends_with(".after_usage"))
                        .count();
                    if inside >= 2 {
                        overlap = true;
                    }
                }
                // probe: two writers both about to acquire a TenantManager lock
                if parked.iter().filter(|(_, p)| p.starts_with("lock.")).count() >= 2 {
                    lock_overlap = true;
                }
                let p = picks.get(di).cloned().unwrap_or(0) as usize;
                di += 1;
                p
            });
            let trace = match run {
                Ok(t) => t,
                Err(e) => {
                    // never hang: let everything run to its end, then report
                    ThreadCtl::uninstall();
                    samyama::verif::sync::set_lock_handler(None);
                    ctl.drain();
                    for h in handles {
                        let _ = h.join();
                    }
                    panic!("{e}");
                }
            };
            for h in handles {
                let _ = h.join();
            }
            ThreadCtl::uninstall();
            samyama::verif::sync::set_lock_handler(None);
            o.steps += trace.len() as u64;
            // probe: some writer was released from one lock point and parked at the next
            // while another writer ran in between — i.e. the scheduler used the gap between
            // two lock acquisitions of one TenantManager call
            for (i, (ix, p)) in trace.iter().enumerate() {
                if !p.starts_with("lock.") {
                    continue;
                }
                // next release of the same thread
                if let Some(j) = trace.iter().enumerate().skip(i + 1).find(|(_, (jx, _))| jx == ix).map(|(j, _)| j) {
                    if trace[j].1.starts_with("lock.") && j > i + 1 {
                        split_call = true;
                    }
                }
            }
            for ix in 0..programs.len() {
                if let Some(msg) = ctl.panic_of(ix) {
                    o.violate(Violation::new("C18/panic_in_writer", format!("writer {ix} panicked: {msg}"), 0));
                }
            }
            // canonical schedule: threads renamed by first appearance
            let mut rename: BTreeMap<usize, usize> = BTreeMap::new();
            let mut canon = Vec::new();
            for (ix, p) in &trace {
                let n = rename.len();
                let r = *rename.entry(*ix).or_insert(n);
                let short = if p.starts_with("lock.") { p.as_str() } else { p.rsplit('.').next().unwrap_or(p) };
                canon.push(format!("{r}{short}"));
            }
            let mut progs: Vec<(usize, String)> = programs.iter().enumerate().map(|(ix, p)| (*rename.get(&ix).unwrap_or(&99), p.iter().map(|(k, _)| k.to_string()).collect::<String>())).collect();
            progs.sort();
            class_parts.push(format!("{:?}", progs));
            class_parts.push(canon.join(","));
            sched_desc = trace.iter().map(|(ix, p)| format!("w{ix}<-{}", if p.starts_with("lock.") { p.as_str() } else { p.rsplit('.').next().unwrap_or(p) })).collect::<Vec<_>>().join(" ");
            let mut rs = results.lock().unwrap_or_else(|e| e.into_inner()).clone();
            rs.sort_by(|a, b| (a.who.clone(), a.id).cmp(&(b.who.clone(), b.id)));
            attempts.extend(rs);
        }
        if overlap {
            o.probe("both_passed_quota_check");
        }
        if lock_overlap {
            o.probe("two_writers_parked_before_lock_acquisition");
        }
        if split_call {
            o.probe("writer_parked_between_two_lock_acquisitions_of_one_call");
        }
        if attempts.iter().any(|a| !a.ok && a.quota_error && a.who.starts_with('w')) {
            o.probe("writer_refused");
        }
        for kind in 0..2 {
            let acc = attempts.iter().filter(|a| a.kind == kind && a.ok).count();
            let refused = attempts.iter().filter(|a| a.kind == kind && !a.ok && a.quota_error).count();
            if refused > 0 && quota[kind].map(|q| acc < q).unwrap_or(true) {
                o.probe("refused_while_room_remained");
            }
        }
        // state class of the signatures from here on: a creation was refused by the log
        let mut wal_refusal_seen = false;
        let mut note_wal = |o: &mut Outcome, attempts: &[Attempt], fsg: &FsGuard, counted_before: usize| -> bool {
            let n = fired(fsg);
            if n > 0 {
                o.fault("wal_io_error");
            }
            if attempts.iter().any(|a| !a.ok && a.wal_error) {
                o.probe("creation_refused_by_failed_wal_append");
                // the refused creation met counters that were not 0: someone had been counted
                // before it (or reserved concurrently with it)
                if counted_before > 0 || attempts.iter().filter(|a| a.ok).count() > 0 {
                    o.probe("wal_append_failed_for_tenant_with_counted_entities");
                }
                return true;
            }
            false
        };
        wal_refusal_seen |= note_wal(&mut o, &attempts, &fsg, counted_before_writers);
        let mut pm_opt: Option<Arc<PersistenceManager>> = Some(pm);
        {
            let pmr = pm_opt.as_ref().unwrap();
            let mut c = Check { pm: pmr, quota, writers_quota: q0, wal_faults_fired: fired(&fsg), out: Vec::new(), sched: sched_desc.clone() };
            c.all(&attempts, if wal_refusal_seen { "after_writers_with_failed_wal_append" } else { "after_writers" }, 0);
            o.steps += 1;
            for v in c.out {
                o.violate(v);
            }
        }
        // ---- between phases: limits introduced / replaced (update_quotas), then sequential
        // creations on the same manager.  Its counters have seen every creation, so from the
        // moment a limit exists nothing may be accepted while storage holds >= that limit.
        let mut mid_phase = "after_writers";
        arm(&fsg, 1);
        for ev in case.events.iter().filter(|e| op(e) == "setq" || op(e) == "mid" || op(e) == "midckpt").take(8) {
            if !o.violations.is_empty() {
                break;
            }
            let pmr = pm_opt.as_ref().unwrap();
            if op(ev) == "midckpt" {
                // closes the current log file: the next append has to open a new one
                if let Err(e) = pmr.checkpoint() {
                    if !(matches!(e, PersistenceError::Wal(_)) && fired(&fsg) > 0) {
                        o.violate(Violation::new("C18/checkpoint/error", e.to_string(), 0));
                        break;
                    }
                }
                class_parts.push("ckpt".into());
                o.steps += 1;
                continue;
            }
            if op(ev) == "setq" {
                let newq: Quota = [Some(1 + (u(ev, "nodes").saturating_sub(1) % 2) as usize), Some(1 + (u(ev, "edges").saturating_sub(1) % 2) as usize)];
                if (0..2).any(|k| quota[k].is_none()) {
                    o.probe("limit_introduced_later");
                    mid_phase = "after_limit_introduced";
                } else if mid_phase == "after_writers" {
                    mid_phase = "after_limits_replaced";
                }
                if let Err(e) = pmr.tenants().update_quotas(TENANT, quotas_of(newq)) {
                    o.violate(Violation::new("C18/update_quotas/error", e.to_string(), 0));
                    break;
                }
                quota = newq;
                class_parts.push(format!("setq{}", qdesc(newq)));
                o.steps += 1;
                continue;
            }
            let kind = (u(ev, "kind") % 2) as usize;
            let id = next_id[kind];
            next_id[kind] += 1;
            let mut c = Check { pm: pmr, quota, writers_quota: q0, wal_faults_fired: 0, out: Vec::new(), sched: sched_desc.clone() };
            let held: usize = c.stored(kind, 0).map(|m| m.values().sum()).unwrap_or(0);
            let counted = attempts.iter().filter(|a| a.ok).count();
            let a = create(pmr, "mid", kind, id, payload);
            if let Some(q) = quota[kind] {
                if !a.ok && a.quota_error && mid_phase == "after_limit_introduced" {
                    o.probe("creation_refused_after_limit_introduced");
                }
                if a.ok && held >= q {
                    c.fail(
                        format!("C18/quota_exceeded/{}/{mid_phase}", KINDS[kind]),
                        format!("storage held {held} {} (limit {q}, same manager, no restart), yet a further creation (id {id}) was accepted", KINDS[kind]),
                        0,
                    );
                }
            }
            attempts.push(a);
            wal_refusal_seen |= note_wal(&mut o, &attempts[attempts.len() - 1..], &fsg, counted);
            class_parts.push(format!("mid{kind}"));
            o.steps += 1;
            c.wal_faults_fired = fired(&fsg);
            c.all(&attempts, if wal_refusal_seen { "after_sequential_creations_with_failed_wal_append" } else { "after_sequential_creations" }, 0);
            for v in c.out {
                o.violate(v);
            }
        }
        if let Some(fs) = &fsg.0 {
            fs.set_fail(None); // the fault window ends here: restart / recovery run fault-free
        }
        let wal_fired = fired(&fsg);
        // ---- recovery (optionally in a restarted process), repeated on the same manager
        let n_rec = case.events.iter().filter(|e| op(e) == "recover").count().min(3);
        let mut stop = !o.violations.is_empty() && o.violations.iter().any(|v| v.signature.starts_with("C18/panic") || v.signature.starts_with("C18/scan_error"));
        // state class of the after-recovery signatures: what the recovering manager had seen
        let mut rec_phase = "after_recover";
        let mut restarted = false;
        let rwrites: Vec<usize> = case.events.iter().filter(|e| op(e) == "rwrite").take(3).map(|e| (u(e, "kind") % 2) as usize).collect();
        if n_rec > 0 && (restart || !rwrites.is_empty()) && !stop {
            o.probe("restart_before_recover");
            pm_opt = None; // drop: releases RocksDB's LOCK
            match open(&dir, quota) {
                Ok(p) => pm_opt = Some(Arc::new(p)),
                Err(e) => {
                    o.violate(Violation::new("C18/reopen/error", e, 0));
                    stop = true;
                }
            }
            class_parts.push("restart".into());
            restarted = true;
            // ---- the restarted process accepts creations BEFORE it recovers the tenant:
            // its counters start at 0 and know nothing of what is stored, so whether these
            // are accepted is not judged (see assumptions); what recover makes of counters
            // that are already running is judged by the checks after each recover below
            if !stop {
                let pmr = pm_opt.as_ref().unwrap();
                for kind in &rwrites {
                    let kind = *kind;
                    let held_before: usize = {
                        let mut c = Check { pm: pmr, quota, writers_quota: q0, wal_faults_fired: wal_fired, out: Vec::new(), sched: sched_desc.clone() };
                        c.stored(kind, 0).map(|m| m.values().sum()).unwrap_or(0)
                    };
                    let id = next_id[kind];
                    next_id[kind] += 1;
                    let a = create(pmr, "rw", kind, id, payload);
                    o.probe("creation_on_restarted_manager_before_recover");
                    if a.ok && held_before > 0 {
                        o.probe("recover_on_manager_with_running_counters_and_stored_data");
                    }
                    rec_phase = "after_recover_on_restarted_manager_with_earlier_creations";
                    attempts.push(a);
                    class_parts.push(format!("rw{kind}"));
                    o.steps += 1;
                }
            }
        }
        if !stop {
            for i in 0..n_rec {
                let pmr = pm_opt.as_ref().unwrap();
                if i == 1 {
                    o.probe("recover_twice");
                }
                o.steps += 1;
                match pmr.recover(TENANT) {
                    Ok((ns, es)) => {
                        let mut c = Check { pm: pmr, quota, writers_quota: q0, wal_faults_fired: wal_fired, out: Vec::new(), sched: sched_desc.clone() };
                        for (kind, n) in [(0usize, ns.len()), (1usize, es.len())] {
                            if let Some(st) = c.stored(kind, i + 1) {
                                let total: usize = st.values().sum();
                                if total != n {
                                    c.fail(format!("C18/recover_count/{}", KINDS[kind]), format!("recover returned {n}, a scan returns {total}"), i + 1);
                                }
                            }
                        }
                        c.all(&attempts, rec_phase, i + 1);
                        for v in c.out {
                            o.violate(v);
                        }
                    }
                    Err(e) => o.violate(Violation::new("C18/recover/error", e.to_string(), i + 1)),
                }
                class_parts.push("rec".into());
            }
            // ---- one more sequential creation per kind: the quota must still hold
            {
                let pmr = pm_opt.as_ref().unwrap();
                for ev in case.events.iter().filter(|e| op(e) == "post").take(2) {
                    let kind = (u(ev, "kind") % 2) as usize;
                    let id = next_id[kind];
                    next_id[kind] += 1;
                    let mut c = Check { pm: pmr, quota, writers_quota: q0, wal_faults_fired: wal_fired, out: Vec::new(), sched: sched_desc.clone() };
                    let held: usize = c.stored(kind, n_rec + 1).map(|m| m.values().sum()).unwrap_or(0);
                    let a = create(pmr, "post", kind, id, payload);
                    // judged when the manager's counters cover everything stored: it recovered the
                    // tenant, or it is the manager that accepted every creation itself
                    let judged = n_rec > 0 || !restarted;
                    if !a.ok {
                        if n_rec > 0 {
                            o.probe("post_recover_creation_refused");
                        }
                    } else if judged && quota[kind].map(|q| held >= q).unwrap_or(false) {
                        let ph = if n_rec > 0 { rec_phase } else { mid_phase };
                        c.fail(
                            format!("C18/quota_exceeded/{}/{ph}", KINDS[kind]),
                            format!("storage held {held} {} (quota {}), yet a further creation (id {id}) was accepted", KINDS[kind], qdesc(quota)),
                            n_rec + 1,
                        );
                    }
                    for v in c.out {
                        o.violate(v);
                    }
                    attempts.push(a);
                    class_parts.push(format!("post{kind}"));
                    o.steps += 1;
                }
                let mut c = Check { pm: pmr, quota, writers_quota: q0, wal_faults_fired: wal_fired, out: Vec::new(), sched: sched_desc.clone() };
                if n_rec > 0 || !restarted {
                    c.all(&attempts, if n_rec > 0 { rec_phase } else { "after_sequential_creations" }, n_rec + 1);
                }
                for v in c.out {
                    o.violate(v);
                }
            }
        }
        // de-duplicate signatures (the same clause can fire in several phases)
        let mut seen = BTreeSet::new();
        o.violations.retain(|v| seen.insert(v.signature.clone()));
        o.nontrivial = overlap || lock_overlap;
        o.class_key = hash_str(&class_parts.join("|"));
        let final_usage = pm_opt.as_ref().and_then(|p| p.tenants().get_usage(TENANT).ok()).map(|u| (u.node_count, u.edge_count));
        o.state_hash = hash_str(&format!("{:?}|{:?}|{}", attempts.iter().map(|a| (a.who.clone(), a.kind, a.id, a.ok)).collect::<Vec<_>>(), final_usage, sched_desc));
        drop(pm_opt);
        drop(fsg);
        o
    }
}
