//! C32 — replicated requests have their persistence effect on every replica.
//!
//! Real: `GraphStateMachine::apply`, `RaftNode::{initialize, write}`, `PersistenceManager`
//! (WAL on the real file system of the scratch tmpfs + RocksDB), `recover`.
//! Stub: replication itself (it does not exist in src/raft): the simulator owns ONE committed
//! request sequence and delivers it to 2-3 replicas, each at its own pace (scheduler events),
//! with clean restarts of a replica between deliveries.
//!
//! Oracle: after the last delivery every replica is closed, reopened and `recover("default")`
//! is compared (ids, labels, properties, endpoints, type — timestamps/versions ignored) with a
//! key-value reference model of the sequence and with the other replicas.  The response
//! variant of every request is checked against what the model allows.

use crate::kit::core::*;
use crate::kit::exec::block_on;
use crate::kit::model::*;
use crate::kit::rng::{Rng, Streams};
use samyama::graph::PropertyMap;
use samyama::persistence::{PersistenceManager, ResourceQuotas};
use samyama::raft::{GraphStateMachine, RaftNode, Request, Response};
use serde_json::{json, Value};
use std::collections::{BTreeMap, BTreeSet};
use std::sync::Arc;

pub struct C32;

const LABELS: [&str; 3] = ["A", "B", "C"];
const TYPES: [&str; 2] = ["T", "U"];
const KEYS: [&str; 2] = ["k", "m"];

#[derive(Clone, Debug, PartialEq, Eq)]
struct MNode {
    labels: BTreeSet<String>,
    props: BTreeMap<String, String>,
}
#[derive(Clone, Debug, PartialEq, Eq)]
struct MEdge {
    src: u64,
    dst: u64,
    ty: String,
    props: BTreeMap<String, String>,
}
#[derive(Clone, Debug, Default, PartialEq, Eq)]
struct Kv {
    nodes: BTreeMap<u64, MNode>,
    edges: BTreeMap<u64, MEdge>,
}

impl Kv {
    fn describe(&self) -> String {
        let ns: Vec<String> = self.nodes.iter().map(|(i, n)| format!("{i}:{:?}{:?}", n.labels, n.props)).collect();
        let es: Vec<String> = self.edges.iter().map(|(i, e)| format!("{i}:{}-[{}{:?}]->{}", e.src, e.ty, e.props, e.dst)).collect();
        format!("nodes[{}] edges[{}]", ns.join(", "), es.join(", "))
    }
}

fn props_of(v: &Value) -> (PropertyMap, BTreeMap<String, String>) {
    let mut pm = PropertyMap::new();
    let mut bm = BTreeMap::new();
    if let Some(o) = v.as_object() {
        for (k, x) in o {
            let pv = pv_from_json(x);
            if !pv.is_null() {
                bm.insert(k.clone(), pv_canon(&pv));
            }
            pm.insert(k.clone(), pv);
        }
    }
    (pm, bm)
}

fn gen_props(r: &mut Rng, full: bool) -> Value {
    let mut m = serde_json::Map::new();
    for k in KEYS {
        if full || r.chance(1, 2) {
            m.insert(k.to_string(), gen_small_value(r));
        }
    }
    Value::Object(m)
}

fn gen_req(r: &mut Rng, allow_ghost: bool, allow_empty_labels: bool) -> Value {
    let ghost = allow_ghost && r.chance(1, 12);
    let tenant = if ghost { 1 } else { 0 };
    match r.weighted(&[10, 8, 3, 3, 7, 4, 1]) {
        0 => {
            let nl = if allow_empty_labels && r.chance(1, 6) { 0 } else { 1 + r.below(2) };
            let mut labels: Vec<u64> = Vec::new();
            for _ in 0..nl {
                let l = r.below(3);
                if !labels.contains(&l) {
                    labels.push(l);
                }
            }
            json!({"op":"req","kind":"create_node","tenant":tenant,"id":1 + r.below(5),"labels":labels,"props":gen_props(r, false)})
        }
        1 => json!({"op":"req","kind":"create_edge","tenant":tenant,"id":1 + r.below(4),"src":1 + r.below(6),"dst":1 + r.below(6),"type":r.below(2),"props":gen_props(r, false)}),
        2 => json!({"op":"req","kind":"delete_node","tenant":tenant,"id":1 + r.below(5)}),
        3 => json!({"op":"req","kind":"delete_edge","tenant":tenant,"id":1 + r.below(4)}),
        // updates always carry every key, so "replace the map" and "merge into the map" agree
        4 => json!({"op":"req","kind":"update_node","tenant":tenant,"id":1 + r.below(5),"props":gen_props(r, true),"version":r.below(3)}),
        5 => json!({"op":"req","kind":"update_edge","tenant":tenant,"id":1 + r.below(4),"props":gen_props(r, true),"version":r.below(3)}),
        _ => json!({"op":"req","kind":"query","tenant":tenant}),
    }
}

fn tenant_name(t: u64) -> String {
    if t == 0 { "default".into() } else { "ghost".into() }
}

fn to_request(ev: &Value) -> Request {
    let tenant = tenant_name(u(ev, "tenant"));
    match s(ev, "kind") {
        "create_node" => Request::CreateNode {
            tenant,
            node_id: u(ev, "id"),
            labels: ev["labels"].as_array().map(|a| a.iter().map(|x| LABELS[(x.as_u64().unwrap_or(0) % 3) as usize].to_string()).collect()).unwrap_or_default(),
            properties: props_of(&ev["props"]).0,
        },
        "create_edge" => Request::CreateEdge {
            tenant,
            edge_id: u(ev, "id"),
            source: u(ev, "src"),
            target: u(ev, "dst"),
            edge_type: TYPES[(u(ev, "type") % 2) as usize].to_string(),
            properties: props_of(&ev["props"]).0,
        },
        "delete_node" => Request::DeleteNode { tenant, node_id: u(ev, "id") },
        "delete_edge" => Request::DeleteEdge { tenant, edge_id: u(ev, "id") },
        "update_node" => Request::UpdateNodeProperties { tenant, node_id: u(ev, "id"), properties: props_of(&ev["props"]).0, version: u(ev, "version") },
        "update_edge" => Request::UpdateEdgeProperties { tenant, edge_id: u(ev, "id"), properties: props_of(&ev["props"]).0, version: u(ev, "version") },
        _ => Request::ExecuteQuery { tenant, query: "MATCH (n) RETURN n".into() },
    }
}

#[derive(Clone, Copy, PartialEq, Eq, Debug)]
enum Rc {
    Ok,
    Err,
}

fn resp_class(kind: &str, id: u64, r: &Response) -> Result<Rc, String> {
    match (kind, r) {
        (_, Response::Error { .. }) => Ok(Rc::Err),
        ("create_node", Response::NodeCreated { node_id }) if *node_id == id => Ok(Rc::Ok),
        ("create_edge", Response::EdgeCreated { edge_id }) if *edge_id == id => Ok(Rc::Ok),
        ("delete_node" | "delete_edge" | "update_node" | "update_edge", Response::Ok) => Ok(Rc::Ok),
        ("query", Response::QueryResult { .. }) => Ok(Rc::Ok),
        _ => Err(format!("{r:?}")),
    }
}

struct Replica {
    dir: String,
    pm: Option<Arc<PersistenceManager>>,
    node: Option<RaftNode>,
    sm: Option<GraphStateMachine>,
    via_node: bool,
    cursor: usize,
    responses: Vec<Rc>,
    restarts: u64,
}

impl Replica {
    fn open(&mut self, quotas: &Option<(u64, u64)>) -> Result<(), String> {
        let pm = Arc::new(PersistenceManager::new(&self.dir).map_err(|e| e.to_string())?);
        if let Some((qn, qe)) = quotas {
            // tenant configuration is not persisted anywhere: the replica's (simulated) start-up applies it
            let mut q = ResourceQuotas::default();
            q.max_nodes = Some(*qn as usize);
            q.max_edges = Some(*qe as usize);
            pm.tenants().update_quotas("default", q).map_err(|e| e.to_string())?;
        }
        let sm = GraphStateMachine::new(pm.clone());
        if self.via_node {
            let mut n = RaftNode::new(1, sm);
            block_on(n.initialize(vec![])).map_err(|e| e.to_string())?;
            self.node = Some(n);
        } else {
            self.sm = Some(sm);
        }
        self.pm = Some(pm);
        Ok(())
    }
    fn close(&mut self) {
        self.node = None;
        self.sm = None;
        self.pm = None; // last Arc: RocksDB handle dropped, LOCK released
    }
    fn apply(&self, req: Request) -> Result<Response, String> {
        if let Some(n) = &self.node {
            block_on(n.write(req)).map_err(|e| e.to_string())
        } else {
            Ok(block_on(self.sm.as_ref().unwrap().apply(req)))
        }
    }
}

/// Bounds on the usage counter the quota check may be looking at, tracked without
/// mirroring the implementation's accounting: `lo` = successes - deletes (saturating),
/// `hi` = successes.  A create must fail if lo >= max and must succeed if hi < max.
#[derive(Default, Clone, Copy)]
struct UsageBounds {
    lo: u64,
    hi: u64,
}

impl Scenario for C32 {
    fn id(&self) -> &'static str {
        "C32"
    }
    fn runs(&self, tier: Tier) -> u64 {
        match tier {
            Tier::Quick => 200,
            Tier::Thorough => 10_000,
        }
    }
    fn rule(&self) -> &'static str {
        "a run = one committed sequence of <=24 requests (create node/edge with client-chosen ids 1..6 so that overwrites, relationships to missing nodes and deletes of missing entities occur; delete node/edge; full-map property updates of nodes/edges; read query; 1/12 addressed to an unregistered tenant; optionally a small node/edge quota so that creates fail) delivered to 2-3 replicas (half through RaftNode::write, half through GraphStateMachine::apply) by scheduler events 'deliver next n to replica r' and 'restart replica r' (restarts only in runs without a quota), then flushed to all. Non-trivial = >=1 property update of an existing entity and >=1 request that failed, or >=1 restart, with >=2 replicas. Distinct = hash of the request sequence + schedule."
    }
    fn real_components(&self) -> Vec<&'static str> {
        vec![
            "samyama::raft::GraphStateMachine::apply",
            "samyama::raft::RaftNode::{new, initialize, write}",
            "samyama::persistence::PersistenceManager::{new, persist_*, recover}, TenantManager quotas, Wal (real files), PersistentStorage (RocksDB on tmpfs)",
        ]
    }
    fn stub_components(&self) -> Vec<&'static str> {
        vec![
            "replication (leader, log shipping, commit): the simulator holds the committed sequence and delivers it to each replica in order",
            "replica start-up: open PersistenceManager on the replica's directory, apply the (unpersisted) tenant quota configuration, wrap in GraphStateMachine / RaftNode",
        ]
    }
    fn assumptions(&self) -> Vec<&'static str> {
        vec![
            "reference model is a key-value map per entity kind (no referential integrity): a request answered with Response::Error has no effect, any other response has the request's effect",
            "property updates carry every key in use, so 'replace' and 'merge' readings of UpdateNodeProperties agree; an update of a missing entity has no effect and may be answered either way",
            "quota failures are predicted only by bounds (must fail if successes-deletes >= max, must succeed if successes < max), not by mirroring the usage accounting; runs with a quota have no restarts because the usage counter is volatile",
            "wall-clock fields (created_at, updated_at) and version numbers are not compared",
        ]
    }
    fn required_probes(&self, _tier: Tier) -> Vec<&'static str> {
        vec!["update_of_existing_entity", "request_failed_quota", "request_failed_unknown_tenant", "edge_to_missing_node", "restart_between_deliveries", "replicas_compared"]
    }
    fn generate(&self, s: &mut Streams, _run_index: u64, _tier: Tier) -> Case {
        let mut case = Case::new("C32");
        let replicas = if s.knobs.chance(1, 3) { 3 } else { 2 };
        let quota = s.knobs.chance(1, 3);
        case.knobs.insert("replicas".into(), json!(replicas));
        if quota {
            case.knobs.insert("quota_nodes".into(), json!(1 + s.knobs.below(4)));
            case.knobs.insert("quota_edges".into(), json!(1 + s.knobs.below(3)));
        }
        let via: Vec<bool> = (0..replicas).map(|_| s.knobs.chance(1, 2)).collect();
        case.knobs.insert("via_node".into(), json!(via));
        case.knobs.insert("reopen_before_recover".into(), json!(s.knobs.chance(1, 3)));
        let allow_ghost = s.knobs.chance(1, 2);
        let allow_empty_labels = s.knobs.chance(1, 3);
        let n = s.knobs.short_len(2, 24);
        for _ in 0..n {
            case.events.push(gen_req(&mut s.workload, allow_ghost, allow_empty_labels));
            // scheduler: 0-2 delivery / restart events after each committed request
            for _ in 0..s.sched.below(3) {
                if !quota && s.sched.chance(1, 10) {
                    case.events.push(json!({"op":"restart","replica":s.sched.below(3)}));
                } else {
                    case.events.push(json!({"op":"deliver","replica":s.sched.below(3),"n":1 + s.sched.below(4)}));
                }
            }
        }
        case
    }
    fn shrink_event(&self, ev: &Value) -> Vec<Value> {
        let mut out = Vec::new();
        if op(ev) == "req" {
            if ev.get("props").is_some() && s(ev, "kind").starts_with("create") {
                let mut e = ev.clone();
                e["props"] = json!({});
                out.push(e);
            }
            if u(ev, "tenant") != 0 {
                let mut e = ev.clone();
                e["tenant"] = json!(0);
                out.push(e);
            }
        }
        out
    }
    fn execute(&self, case: &Case) -> Outcome {
        let mut o = Outcome::new();
        let scratch = std::env::var("VERIF_SCRATCH").unwrap_or_else(|_| "/dev/shm".into());
        let root = format!("{scratch}/c32-{}-{}", case.run_index, std::process::id());
        let _ = std::fs::remove_dir_all(&root);
        let n_rep = case.knob_u64("replicas", 2).clamp(2, 3) as usize;
        let quotas: Option<(u64, u64)> = case.knobs.get("quota_nodes").and_then(|v| v.as_u64()).map(|qn| (qn, case.knob_u64("quota_edges", 1)));
        let via: Vec<bool> = case.knobs.get("via_node").and_then(|v| v.as_array()).map(|a| a.iter().map(|b| b.as_bool().unwrap_or(false)).collect()).unwrap_or_default();
        let reopen_before_recover = case.knob_bool("reopen_before_recover", true);
        let mut reps: Vec<Replica> = (0..n_rep)
            .map(|i| Replica { dir: format!("{root}/r{i}"), pm: None, node: None, sm: None, via_node: via.get(i).copied().unwrap_or(i % 2 == 0), cursor: 0, responses: Vec::new(), restarts: 0 })
            .collect();
        for r in reps.iter_mut() {
            if let Err(e) = r.open(&quotas) {
                panic!("harness: cannot open replica store {}: {e}", r.dir);
            }
        }
        let reqs: Vec<&Value> = case.events.iter().filter(|e| op(e) == "req").collect();
        // ---- reference model of the committed sequence, with the response each request may get
        let mut model = Kv::default();
        let mut had_update_existing = false;
        // whether a quota-dependent create succeeded is taken from replica 0's response when the
        // bounds leave it open (then only cross-replica agreement is checked)
        let (mut nb, mut eb) = (UsageBounds::default(), UsageBounds::default());

        // ---- drive the schedule
        let mut committed = 0usize; // number of requests committed so far (appeared in the event list)
        let mut violation: Option<Violation> = None;
        let mut sched_sig: Vec<String> = Vec::new();
        let deliver = |rep: &mut Replica, upto: usize, reqs: &Vec<&Value>, o: &mut Outcome| -> Option<Violation> {
            while rep.cursor < upto {
                let ev = reqs[rep.cursor];
                let kind = s(ev, "kind");
                let resp = match rep.apply(to_request(ev)) {
                    Ok(r) => r,
                    Err(e) => return Some(Violation::new(format!("C32/write_refused/{kind}"), format!("RaftNode::write refused request #{}: {e}", rep.cursor), rep.cursor)),
                };
                o.steps += 1;
                match resp_class(kind, u(ev, "id"), &resp) {
                    Ok(c) => rep.responses.push(c),
                    Err(d) => return Some(Violation::new(format!("C32/response/wrong_variant/{kind}"), format!("request #{} {ev} answered {d}", rep.cursor), rep.cursor)),
                }
                rep.cursor += 1;
            }
            None
        };
        'events: for ev in case.events.iter() {
            match op(ev) {
                "req" => committed += 1,
                "deliver" => {
                    let k = (u(ev, "replica") as usize) % n_rep;
                    let upto = (reps[k].cursor + u(ev, "n") as usize).min(committed);
                    sched_sig.push(format!("d{k}:{}", upto - reps[k].cursor));
                    if let Some(v) = deliver(&mut reps[k], upto, &reqs, &mut o) {
                        violation = Some(v);
                        break 'events;
                    }
                }
                "restart" => {
                    if quotas.is_some() {
                        continue;
                    }
                    let k = (u(ev, "replica") as usize) % n_rep;
                    reps[k].close();
                    if let Err(e) = reps[k].open(&quotas) {
                        violation = Some(Violation::new("C32/restart/reopen_failed", format!("replica {k}: {e}"), reps[k].cursor));
                        break 'events;
                    }
                    reps[k].restarts += 1;
                    if reps[k].cursor > 0 && reps[k].cursor < reqs.len() {
                        o.probe("restart_between_deliveries");
                    }
                    o.fault("clean_restart");
                    sched_sig.push(format!("r{k}"));
                }
                _ => {}
            }
        }
        if violation.is_none() {
            for k in 0..n_rep {
                if let Some(v) = deliver(&mut reps[k], reqs.len(), &reqs, &mut o) {
                    violation = Some(v);
                    break;
                }
            }
        }
        // ---- model pass (responses of replica 0 settle the cases the bounds leave open)
        let mut any_failed = false;
        if violation.is_none() {
            for (i, ev) in reqs.iter().enumerate() {
                let kind = s(ev, "kind");
                let id = u(ev, "id");
                let ghost = u(ev, "tenant") != 0;
                let r0 = reps[0].responses[i];
                let (may_ok, may_err): (bool, bool) = if ghost {
                    match kind {
                        // unknown tenant: nothing may be created for it
                        "create_node" | "create_edge" => (false, true),
                        _ => (true, true),
                    }
                } else {
                    match kind {
                        "create_node" | "create_edge" => {
                            let (b, max) = if kind == "create_node" { (nb, quotas.map(|q| q.0)) } else { (eb, quotas.map(|q| q.1)) };
                            match max {
                                None => (true, false),
                                Some(m) => (b.lo < m, b.hi >= m),
                            }
                        }
                        "delete_node" | "delete_edge" | "query" => (true, false),
                        "update_node" => (true, !model.nodes.contains_key(&id)),
                        _ => (true, !model.edges.contains_key(&id)),
                    }
                };
                // every replica's response must be allowed
                for (k, rep) in reps.iter().enumerate() {
                    let c = rep.responses[i];
                    let ok = match c {
                        Rc::Ok => may_ok,
                        Rc::Err => may_err,
                    };
                    if !ok && violation.is_none() {
                        let cls = if ghost { "unknown_tenant" } else if quotas.is_some() && kind.starts_with("create") { "quota" } else { "plain" };
                        violation = Some(Violation::new(
                            format!("C32/response/{kind}/{}_{cls}", if c == Rc::Ok { "accepted_but_must_fail" } else { "failed_but_must_succeed" }),
                            format!("replica {k}: request #{i} {ev} answered {c:?}; model state {}", model.describe()),
                            i,
                        ));
                    }
                    if c != r0 && violation.is_none() {
                        violation = Some(Violation::new(
                            format!("C32/replica_divergence/response/{kind}"),
                            format!("request #{i} {ev}: replica 0 answered {r0:?}, replica {k} answered {c:?}"),
                            i,
                        ));
                    }
                }
                if violation.is_some() {
                    break;
                }
                if r0 == Rc::Err {
                    any_failed = true;
                    if ghost {
                        o.probe("request_failed_unknown_tenant");
                    } else if kind.starts_with("create") {
                        o.probe("request_failed_quota");
                    }
                    continue;
                }
                if ghost {
                    continue;
                }
                match kind {
                    "create_node" => {
                        let labels: BTreeSet<String> = ev["labels"].as_array().map(|a| a.iter().map(|x| LABELS[(x.as_u64().unwrap_or(0) % 3) as usize].to_string()).collect()).unwrap_or_default();
                        model.nodes.insert(id, MNode { labels, props: props_of(&ev["props"]).1 });
                        nb.lo += 1;
                        nb.hi += 1;
                    }
                    "create_edge" => {
                        let (src, dst) = (u(ev, "src"), u(ev, "dst"));
                        if !model.nodes.contains_key(&src) || !model.nodes.contains_key(&dst) {
                            o.probe("edge_to_missing_node");
                        }
                        model.edges.insert(id, MEdge { src, dst, ty: TYPES[(u(ev, "type") % 2) as usize].to_string(), props: props_of(&ev["props"]).1 });
                        eb.lo += 1;
                        eb.hi += 1;
                    }
                    "delete_node" => {
                        model.nodes.remove(&id);
                        nb.lo = nb.lo.saturating_sub(1);
                    }
                    "delete_edge" => {
                        model.edges.remove(&id);
                        eb.lo = eb.lo.saturating_sub(1);
                    }
                    "update_node" => {
                        if let Some(n) = model.nodes.get_mut(&id) {
                            let new = props_of(&ev["props"]).1;
                            if n.props != new {
                                had_update_existing = true;
                                o.probe("update_of_existing_entity");
                            }
                            n.props = new;
                        }
                    }
                    "update_edge" => {
                        if let Some(e) = model.edges.get_mut(&id) {
                            let new = props_of(&ev["props"]).1;
                            if e.props != new {
                                had_update_existing = true;
                                o.probe("update_of_existing_entity");
                            }
                            e.props = new;
                        }
                    }
                    _ => {}
                }
            }
        }
        // ---- recover every replica after a clean close
        let mut recovered: Vec<Kv> = Vec::new();
        if violation.is_none() {
            for (k, rep) in reps.iter_mut().enumerate() {
                // RocksDB opens dominate the cost of a run (~25 threads spawned per open): the
                // close-and-reopen before recover() is done in 1/3 of the runs, otherwise
                // recover() reads through the replica's live handle.
                let pm: Arc<PersistenceManager> = if reopen_before_recover {
                    rep.close();
                    match PersistenceManager::new(&rep.dir) {
                        Ok(p) => Arc::new(p),
                        Err(e) => {
                            violation = Some(Violation::new("C32/recover/reopen_failed", format!("replica {k}: {e}"), reqs.len()));
                            break;
                        }
                    }
                } else {
                    rep.pm.clone().expect("open replica")
                };
                match pm.recover("default") {
                    Ok((nodes, edges)) => {
                        let mut kv = Kv::default();
                        let mut dup = false;
                        for n in nodes {
                            let props = n.properties.iter().filter(|(_, v)| !v.is_null()).map(|(k, v)| (k.clone(), pv_canon(v))).collect();
                            dup |= kv.nodes.insert(n.id.as_u64(), MNode { labels: n.labels.iter().map(|l| l.as_str().to_string()).collect(), props }).is_some();
                        }
                        for e in edges {
                            let props = e.properties.iter().filter(|(_, v)| !v.is_null()).map(|(k, v)| (k.clone(), pv_canon(v))).collect();
                            dup |= kv.edges.insert(e.id.as_u64(), MEdge { src: e.source.as_u64(), dst: e.target.as_u64(), ty: e.edge_type.as_str().to_string(), props }).is_some();
                        }
                        if dup {
                            violation = Some(Violation::new("C32/recover/duplicate_id", format!("replica {k} recovered the same id twice"), reqs.len()));
                        }
                        match pm.list_persisted_tenants() {
                            Ok(ts) if ts.iter().any(|t| t == "ghost") => {
                                violation.get_or_insert(Violation::new("C32/recovered/unknown_tenant_has_data", format!("replica {k}: tenants with data {ts:?}"), reqs.len()));
                            }
                            _ => {}
                        }
                        recovered.push(kv);
                    }
                    Err(e) => {
                        violation = Some(Violation::new("C32/recover/failed", format!("replica {k}: {e}"), reqs.len()));
                    }
                }
                drop(pm);
                if violation.is_some() {
                    break;
                }
            }
        }
        if violation.is_none() {
            o.probe("replicas_compared");
            // against the model
            'cmp: for (k, kv) in recovered.iter().enumerate() {
                if *kv == model {
                    continue;
                }
                // classify the first difference
                let ids: BTreeSet<u64> = kv.nodes.keys().chain(model.nodes.keys()).cloned().collect();
                for id in ids {
                    let (g, w) = (kv.nodes.get(&id), model.nodes.get(&id));
                    let class = match (g, w) {
                        (None, Some(_)) => "node_missing",
                        (Some(_), None) => "node_resurrected",
                        (Some(a), Some(b)) if a.labels != b.labels => {
                            if b.labels.is_empty() { "node_labels/empty_label_list" } else { "node_labels" }
                        }
                        (Some(a), Some(b)) if a.props != b.props => "node_properties",
                        _ => continue,
                    };
                    violation = Some(Violation::new(format!("C32/recovered_vs_model/{class}"), format!("replica {k} node {id}: recovered {g:?}, model {w:?} | recovered {} | model {}", kv.describe(), model.describe()), reqs.len()));
                    break 'cmp;
                }
                let ids: BTreeSet<u64> = kv.edges.keys().chain(model.edges.keys()).cloned().collect();
                for id in ids {
                    let (g, w) = (kv.edges.get(&id), model.edges.get(&id));
                    let class = match (g, w) {
                        (None, Some(_)) => "edge_missing",
                        (Some(_), None) => "edge_resurrected",
                        (Some(a), Some(b)) if (a.src, a.dst, &a.ty) != (b.src, b.dst, &b.ty) => "edge_shape",
                        (Some(a), Some(b)) if a.props != b.props => "edge_properties",
                        _ => continue,
                    };
                    violation = Some(Violation::new(format!("C32/recovered_vs_model/{class}"), format!("replica {k} edge {id}: recovered {g:?}, model {w:?} | recovered {} | model {}", kv.describe(), model.describe()), reqs.len()));
                    break 'cmp;
                }
            }
            if violation.is_none() {
                for k in 1..recovered.len() {
                    if recovered[k] != recovered[0] {
                        violation = Some(Violation::new("C32/replica_divergence/recovered", format!("replica 0: {} | replica {k}: {}", recovered[0].describe(), recovered[k].describe()), reqs.len()));
                        break;
                    }
                }
            }
        }
        for rep in reps.iter_mut() {
            rep.close();
        }
        let _ = std::fs::remove_dir_all(&root);
        let restarts: u64 = reps.iter().map(|r| r.restarts).sum();
        o.nontrivial = (had_update_existing && any_failed) || restarts > 0;
        let req_sig: Vec<String> = reqs.iter().map(|e| e.to_string()).collect();
        o.class_key = hash_str(&format!("{}|{}|{n_rep}|{quotas:?}", req_sig.join(";"), sched_sig.join(",")));
        o.state_hash = hash_str(&format!("{}|{:?}|{}", model.describe(), recovered.iter().map(|k| k.describe()).collect::<Vec<_>>(), reps.iter().map(|r| format!("{:?}", r.responses)).collect::<Vec<_>>().join("/")));
        if let Some(v) = violation {
            o.violate(v);
        }
        o
    }
}
