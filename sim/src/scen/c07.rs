//! C07 — versioned reads are stable, duplicate-free and respect deletion.
//!
//! Sim: one logical writer performs a PRNG-generated MVCC history on the real
//! `GraphStore` (create, set/remove node property, add/remove label, set/remove
//! relationship property, delete, version bumps through `commit_transaction` or the
//! public `current_version` field, as tests/mvcc_test.rs does).  After *every* step a
//! reader re-reads every (entity, version <= current) and scans/counts at current.
//!
//! Oracle (three clauses of the statement, kept apart in the signature):
//!  1. a read at v < current (a) never differs from the first read recorded at v after
//!     current moved past v ("changed": pure, model-free) and (b) equals the reference
//!     snapshot S[v] frozen when current moved past v ("wrong_state");
//!  2. `node_count`, `all_nodes`, `MATCH (n) RETURN count(n)`, `MATCH (n) RETURN id(n)`
//!     return each live node exactly once (and `all_edges` / `edge_count` each live
//!     relationship exactly once);
//!  3. a deleted node is not readable at the current version (`get_node`, `has_node`).
//!
//! Signature: `C07/<view>/<clause>/<shape>/[reused_id/]after_<kind of the last write to that entity>`.
//!
//! Id reuse (knob `reuse_ids`, only meaningful with deletes): creation continues after a
//! deletion, the store hands the freed id out again and the entity created under it is a
//! *new entity* (new incarnation of the id).  Its reads at versions >= its creation version
//! are asserted like any other (stable + equal to the reference snapshot) and carry the state
//! class `reused_id` while it is alive; reads of a reused id at versions *before* the creation
//! of its present holder are not asserted at all: they belong to the dead predecessor, whose
//! history the store is known not to keep (listed findings "old-version reads vanish after
//! delete" / "relationship readable before its creation version").
//!
//! Re-synchronisation: the two lifetime-boundary divergences that are listed findings today
//! (all old reads of a just-deleted entity turn absent; a relationship shows up at versions
//! before its creation) are reported and then *muted for that id below the boundary version*
//! instead of ending the run, so that a history can go on to delete-then-recreate.  Every
//! other violation still ends the run.

use crate::kit::core::*;
use crate::kit::model::*;
use crate::kit::mvcc::*;
use crate::kit::rng::{Rng, Streams};
use samyama::graph::{GraphStore, NodeId};
use samyama::query::executor::record::Value as QV;
use samyama::query::QueryEngine;
use serde_json::{json, Value};
use std::collections::BTreeMap;

pub struct C07;

pub struct GenCfg {
    pub allow_delete: bool,
    pub allow_remove: bool,
    pub allow_labels: bool,
    pub allow_edge_props: bool,
    pub field_bump: bool,
}

pub fn gen_props(r: &mut Rng) -> Value {
    let mut props = serde_json::Map::new();
    for k in KEYS {
        if r.chance(1, 2) {
            props.insert(k.to_string(), gen_small_value(r));
        }
    }
    Value::Object(props)
}

/// One history event (shared with C08).
pub fn gen_hist_event(r: &mut Rng, c: &GenCfg) -> Value {
    let w: [u32; 12] = [
        5,                                   // create_node
        4,                                   // create_edge
        14,                                  // set_prop
        if c.allow_remove { 8 } else { 0 },  // remove_prop
        if c.allow_labels { 4 } else { 0 },  // add_label
        if c.allow_labels { 4 } else { 0 },  // remove_label
        if c.allow_edge_props { 9 } else { 0 }, // set_eprop
        if c.allow_edge_props && c.allow_remove { 5 } else { 0 }, // remove_eprop
        if c.allow_delete { 4 } else { 0 },  // delete_node
        if c.allow_delete { 3 } else { 0 },  // delete_edge
        18,                                  // bump
        0,
    ];
    match r.weighted(&w) {
        0 => {
            let labels: Vec<u64> = match r.below(3) {
                0 => vec![],
                1 => vec![r.below(2)],
                _ => vec![0, 1],
            };
            let props = if r.chance(1, 2) { gen_props(r) } else { json!({}) };
            json!({"op":"create_node","labels":labels,"props":props})
        }
        1 => {
            let props = if r.chance(1, 2) { gen_props(r) } else { json!({}) };
            json!({"op":"create_edge","s":r.below(8),"t":r.below(8),"type":r.below(2),"props":props})
        }
        2 => json!({"op":"set_prop","n":r.below(8),"key":r.below(2),"val":gen_small_value(r)}),
        3 => json!({"op":"remove_prop","n":r.below(8),"key":r.below(2)}),
        4 => json!({"op":"add_label","n":r.below(8),"label":r.below(2)}),
        5 => json!({"op":"remove_label","n":r.below(8),"label":r.below(2)}),
        6 => json!({"op":"set_eprop","e":r.below(4),"key":r.below(2),"val":gen_small_value(r)}),
        7 => json!({"op":"remove_eprop","e":r.below(4),"key":r.below(2)}),
        8 => json!({"op":"delete_node","n":r.below(8)}),
        9 => json!({"op":"delete_edge","e":r.below(4)}),
        _ => json!({"op":"bump","via": if c.field_bump && r.chance(1, 3) { "field" } else { "txn" }}),
    }
}

/// Relationship-centred event for the runs that reuse ids: relationships are few (<= 2) and
/// the shared mix rarely writes, deletes and re-creates one inside a short history.
fn gen_edge_churn_event(r: &mut Rng, c: &GenCfg) -> Value {
    let w: [u32; 5] = [
        4,                                                        // create_edge
        if c.allow_edge_props { 5 } else { 0 },                   // set_eprop
        if c.allow_edge_props && c.allow_remove { 2 } else { 0 }, // remove_eprop
        4,                                                        // delete_edge
        4,                                                        // bump
    ];
    match r.weighted(&w) {
        0 => {
            let props = if r.chance(1, 2) { gen_props(r) } else { json!({}) };
            json!({"op":"create_edge","s":r.below(8),"t":r.below(8),"type":r.below(2),"props":props})
        }
        1 => json!({"op":"set_eprop","e":r.below(4),"key":r.below(2),"val":gen_small_value(r)}),
        2 => json!({"op":"remove_eprop","e":r.below(4),"key":r.below(2)}),
        3 => json!({"op":"delete_edge","e":r.below(4)}),
        _ => json!({"op":"bump","via":"txn"}),
    }
}

pub fn shrink_hist_event(ev: &Value) -> Vec<Value> {
    let mut out = Vec::new();
    match op(ev) {
        "create_node" => {
            if ev["props"].as_object().map(|o| !o.is_empty()).unwrap_or(false) || ev["labels"].as_array().map(|a| !a.is_empty()).unwrap_or(false) {
                out.push(json!({"op":"create_node","labels":[],"props":{}}));
                let mut e = ev.clone();
                e["labels"] = json!([]);
                out.push(e);
            }
        }
        "create_edge" => {
            if ev["props"].as_object().map(|o| !o.is_empty()).unwrap_or(false) {
                let mut e = ev.clone();
                e["props"] = json!({});
                out.push(e);
                if ev["props"].as_object().map(|o| o.len() > 1).unwrap_or(false) {
                    let mut e = ev.clone();
                    e["props"] = json!({"k": ev["props"]["k"].clone()});
                    out.push(e);
                }
            }
        }
        "set_prop" | "set_eprop" => {
            if ev["val"] != json!({"i":0}) {
                let mut e = ev.clone();
                e["val"] = json!({"i":0});
                out.push(e);
            }
        }
        "bump" => {
            if s(ev, "via") == "field" {
                out.push(json!({"op":"bump","via":"txn"}));
            }
        }
        _ => {}
    }
    out
}

#[derive(Default)]
struct Recorded {
    nodes: BTreeMap<(u64, u64), Option<NState>>,
    edges: BTreeMap<(u64, u64), Option<EState>>,
    /// reads of this id at versions below the stored one are not asserted (any more): either
    /// the id was reused (versions before the creation of its present holder), or a listed
    /// lifetime-boundary divergence was reported for it and the run went on
    node_from: BTreeMap<u64, u64>,
    edge_from: BTreeMap<u64, u64>,
}

fn raise(map: &mut BTreeMap<u64, u64>, id: u64, to: u64) {
    let e = map.entry(id).or_insert(0);
    if *e < to {
        *e = to;
    }
}

fn shape<T: PartialEq>(before: &Option<T>, after: &Option<T>) -> &'static str {
    match (before, after) {
        (None, Some(_)) => "appeared",
        (Some(_), None) => "vanished",
        _ => "altered",
    }
}

struct Check<'a> {
    g: &'a GraphStore,
    m: &'a Model,
    step: usize,
    trigger: &'a str,
    out: Vec<Violation>,
    /// a violation was reported after which model and store cannot be re-synchronised
    stop: bool,
    resynced: bool,
    /// asserted reads of a live entity under a reused id: (nodes, relationships, relationships
    /// whose dead predecessor had a version log)
    reused_reads: (u64, u64, u64),
}

impl<'a> Check<'a> {
    fn push(&mut self, sig: String, detail: String) {
        if self.out.len() < 8 && !self.out.iter().any(|v| v.signature == sig) {
            self.out.push(Violation::new(sig, format!("after {} (step {}, current_version {}): {}", self.trigger, self.step, self.m.current, detail), self.step));
        }
    }
    fn fail(&mut self, sig: String, detail: String) {
        self.stop = true;
        self.push(sig, detail);
    }
    /// report, but the caller mutes the diverged reads and the run goes on
    fn fail_resync(&mut self, sig: String, detail: String) {
        self.resynced = true;
        self.push(sig, detail);
    }
}

fn multiset(xs: impl IntoIterator<Item = u64>) -> BTreeMap<u64, u32> {
    let mut m = BTreeMap::new();
    for x in xs {
        *m.entry(x).or_insert(0) += 1;
    }
    m
}

fn cypher_ids(eng: &QueryEngine, g: &GraphStore) -> Result<Vec<u64>, String> {
    let b = eng.execute("MATCH (n) RETURN id(n)", g).map_err(|e| e.to_string())?;
    let mut ids = Vec::new();
    for r in &b.records {
        for c in &b.columns {
            match r.get(c) {
                Some(QV::Property(samyama::graph::PropertyValue::Integer(i))) => ids.push(*i as u64),
                other => return Err(format!("unexpected cell {other:?}")),
            }
        }
    }
    Ok(ids)
}

fn cypher_count(eng: &QueryEngine, g: &GraphStore) -> Result<i64, String> {
    let b = eng.execute("MATCH (n) RETURN count(n)", g).map_err(|e| e.to_string())?;
    if b.records.len() != 1 {
        return Err(format!("{} rows", b.records.len()));
    }
    match b.columns.first().and_then(|c| b.records[0].get(c)) {
        Some(QV::Property(samyama::graph::PropertyValue::Integer(i))) => Ok(*i),
        other => Err(format!("unexpected cell {other:?}")),
    }
}

fn check_scan(c: &mut Check, view: &str, got: &[u64]) {
    let m = c.m;
    let got_ms = multiset(got.iter().cloned());
    for (id, cnt) in &got_ms {
        match m.nodes.get(id) {
            Some(n) if n.alive => {
                if *cnt > 1 {
                    let vs = n.write_versions.len();
                    c.fail(
                        format!("C07/{view}/live_node_returned_more_than_once"),
                        format!("node {id} returned {cnt} times (written at {vs} distinct versions); got {:?}", got),
                    );
                }
            }
            Some(n) => {
                let _ = n;
                c.fail(format!("C07/{view}/deleted_node_returned"), format!("node {id} was deleted, scan returns it {cnt} times; got {:?}", got));
            }
            None => c.fail(format!("C07/{view}/unknown_id_returned"), format!("id {id} was never created; got {:?}", got)),
        }
    }
    for id in m.live_nodes() {
        if !got_ms.contains_key(&id) {
            c.fail(format!("C07/{view}/live_node_missing"), format!("live node {id} not returned; got {:?}", got));
        }
    }
}

fn check_count(c: &mut Check, view: &str, got: i64) {
    let m = c.m;
    let want = m.live_nodes().len() as i64;
    if got == want {
        return;
    }
    let class = if got < want {
        "under"
    } else if m.ever_deleted_node {
        "over/history_has_deleted_node"
    } else {
        "over/no_deletion_in_history"
    };
    let versions: usize = m.nodes.values().map(|n| n.write_versions.len()).sum();
    c.fail(format!("C07/{view}/{class}"), format!("{got}, want {want} live nodes (the history wrote {versions} node versions)"));
}

fn check_all(c: &mut Check, rec: &mut Recorded, eng: Option<&QueryEngine>) {
    let g = c.g;
    let m = c.m;
    // ---- clause 1: reads at versions older than current
    for id in 1..=m.max_node() + 1 {
        let ent = m.nodes.get(&id);
        let cause = ent.map(|n| n.last_write).unwrap_or("never_created");
        // the present holder of a reused id is a new entity: asserted from its creation on
        if let Some(n) = ent {
            if n.incarnation > 0 {
                raise(&mut rec.node_from, id, n.created_at);
            }
        }
        let reused_live = ent.map(|n| n.alive && n.incarnation > 0).unwrap_or(false);
        let class = if reused_live { "reused_id/" } else { "" };
        let from = rec.node_from.get(&id).cloned().unwrap_or(0).max(1);
        let mut mute_to = 0u64;
        for v in from..m.current {
            let got = read_node(g, id, v);
            let want = m.snaps.get(&v).and_then(|s| s.nodes.get(&id)).cloned();
            if reused_live {
                c.reused_reads.0 += 1;
            }
            match rec.nodes.get(&(id, v)) {
                Some(first) if *first != got => {
                    let sh = shape(first, &got);
                    let sig = format!("C07/node_at_version/changed/{sh}/{class}after_{cause}");
                    let detail = format!("node {id} at version {v}: first read {} now {} (state as of {v}: {})", show_n(first), show_n(&got), show_n(&want));
                    // every old read of a deleted node turns absent: report, mute its past, go on
                    if sh == "vanished" && ent.map(|n| !n.alive).unwrap_or(false) {
                        c.fail_resync(sig, detail);
                        mute_to = m.current;
                    } else {
                        c.fail(sig, detail);
                    }
                }
                _ => {
                    if got != want {
                        c.fail(
                            format!("C07/node_at_version/wrong_state/{}/{class}after_{cause}", shape(&want, &got)),
                            format!("node {id} at version {v}: read {} but its state as of {v} was {}", show_n(&got), show_n(&want)),
                        );
                    }
                }
            }
            rec.nodes.entry((id, v)).or_insert(got);
        }
        if mute_to > 0 {
            raise(&mut rec.node_from, id, mute_to);
        }
    }
    for id in 1..=m.max_edge() + 1 {
        let ent = m.edges.get(&id);
        let cause = ent.map(|e| e.last_write).unwrap_or("never_created");
        if let Some(e) = ent {
            if e.incarnation > 0 {
                raise(&mut rec.edge_from, id, e.created_at);
            }
        }
        let reused_live = ent.map(|e| e.alive && e.incarnation > 0).unwrap_or(false);
        let pred_log = reused_live && ent.map(|e| e.pred_prop_writes > 0).unwrap_or(false);
        let class = if reused_live { "reused_id/" } else { "" };
        let from = rec.edge_from.get(&id).cloned().unwrap_or(0).max(1);
        let mut mute_to = 0u64;
        for v in from..m.current {
            let got = read_edge(g, id, v);
            let want = m.snaps.get(&v).and_then(|s| s.edges.get(&id)).cloned();
            if reused_live {
                c.reused_reads.1 += 1;
                if pred_log {
                    c.reused_reads.2 += 1;
                }
            }
            match rec.edges.get(&(id, v)) {
                Some(first) if *first != got => {
                    let sh = shape(first, &got);
                    let sig = format!("C07/edge_at_version/changed/{sh}/{class}after_{cause}");
                    let detail = format!("relationship {id} at version {v}: first read {} now {} (state as of {v}: {})", show_e(first), show_e(&got), show_e(&want));
                    let dead = ent.map(|e| !e.alive).unwrap_or(false);
                    let before_creation = ent.map(|e| e.alive && v < e.created_at).unwrap_or(false);
                    if sh == "vanished" && dead {
                        // every old read of a deleted relationship turns absent
                        c.fail_resync(sig, detail);
                        mute_to = mute_to.max(m.current);
                    } else if sh == "appeared" && before_creation {
                        // a live relationship shows up at versions before its creation
                        c.fail_resync(sig, detail);
                        mute_to = mute_to.max(ent.map(|e| e.created_at).unwrap_or(0));
                    } else {
                        c.fail(sig, detail);
                    }
                }
                _ => {
                    if got != want {
                        c.fail(
                            format!("C07/edge_at_version/wrong_state/{}/{class}after_{cause}", shape(&want, &got)),
                            format!("relationship {id} at version {v}: read {} but its state as of {v} was {}", show_e(&got), show_e(&want)),
                        );
                    }
                }
            }
            rec.edges.entry((id, v)).or_insert(got);
        }
        if mute_to > 0 {
            raise(&mut rec.edge_from, id, mute_to);
        }
    }
    // ---- clause 3: deleted node unreadable at current
    for (id, n) in &m.nodes {
        if n.alive {
            continue;
        }
        // write_versions includes the version of the deletion itself
        let class = if n.write_versions.len() >= 2 { "node_written_at_several_versions" } else { "node_written_at_one_version" };
        if let Some(x) = g.get_node(NodeId::new(*id)) {
            c.fail(
                format!("C07/get_node/deleted_node_readable/{class}"),
                format!("node {id} was deleted, get_node returns {} (stamped version {})", show_n(&node_of(Some(x))), x.version),
            );
        }
        if g.has_node(NodeId::new(*id)) {
            c.fail(format!("C07/has_node/deleted_node_readable/{class}"), format!("node {id} was deleted, has_node is true"));
        }
    }
    // ---- clause 2: scans and counts at current
    check_count(c, "node_count", g.node_count() as i64);
    let ids: Vec<u64> = g.all_nodes().iter().map(|n| n.id.as_u64()).collect();
    check_scan(c, "all_nodes", &ids);
    // relationships are entities too: each live one exactly once
    let eids: Vec<u64> = g.all_edges().iter().map(|e| e.id.as_u64()).collect();
    let got_ms = multiset(eids.iter().cloned());
    for (id, cnt) in &got_ms {
        match m.edges.get(id) {
            Some(e) if e.alive => {
                if *cnt > 1 {
                    c.fail("C07/all_edges/live_relationship_returned_more_than_once".into(), format!("relationship {id} returned {cnt} times; got {:?}", eids));
                }
            }
            Some(_) => c.fail("C07/all_edges/deleted_relationship_returned".into(), format!("relationship {id} was deleted; got {:?}", eids)),
            None => c.fail("C07/all_edges/unknown_id_returned".into(), format!("id {id} was never created; got {:?}", eids)),
        }
    }
    for id in m.live_edges() {
        if !got_ms.contains_key(&id) {
            c.fail("C07/all_edges/live_relationship_missing".into(), format!("live relationship {id} not returned; got {:?}", eids));
        }
    }
    let want_e = m.live_edges().len();
    if g.edge_count() != want_e {
        let class = if g.edge_count() > want_e { "over" } else { "under" };
        c.fail(format!("C07/edge_count/{class}"), format!("{}, want {want_e} live relationships", g.edge_count()));
    }
    if let Some(eng) = eng {
        match cypher_count(eng, g) {
            Ok(n) => check_count(c, "cypher_count", n),
            Err(e) => c.fail("C07/cypher_count/query_failed".into(), e),
        }
        match cypher_ids(eng, g) {
            Ok(ids) => check_scan(c, "cypher_scan", &ids),
            Err(e) => c.fail("C07/cypher_scan/query_failed".into(), e),
        }
    }
}

impl Scenario for C07 {
    fn id(&self) -> &'static str {
        "C07"
    }
    fn runs(&self, tier: Tier) -> u64 {
        match tier {
            Tier::Quick => 25_000,
            Tier::Thorough => 2_000_000,
        }
    }
    fn rule(&self) -> &'static str {
        "history = PRNG-generated sequence (3..16 events, biased short) of store-level writes over <=3 live nodes and <=2 live relationships (create with/without properties, set/remove node property, add/remove label, set/remove relationship property, delete node/relationship) and version bumps (begin+commit of a transaction, or the public current_version field); per-run knobs switch deletes / removes / label ops / relationship-property ops off so that a known-bad construct cannot hide the rest. After every step every (entity, version < current) read is compared with the first read recorded at that version and with the reference snapshot, deleted nodes are probed at current, and node_count / all_nodes / two Cypher scans are compared with the live set. Id reuse: in 2/3 of the runs with deletes (knob reuse_ids) creation goes on after deletions, so the store hands freed node / relationship ids out again; those runs start with two nodes and a relationship, are 3 events longer, draw a third of their events from a relationship-centred mix, follow most deletions by a creation of the same kind and half of the relationship creations by a property write. The entity created under a reused id is a new entity: its reads at versions >= its creation version are asserted (state class reused_id), reads of the id at versions before that are not. In the other runs no entity is created after a deletion of the same kind. The two listed lifetime-boundary divergences (old reads of a deleted entity turn absent; a relationship is readable before its creation version) are reported and muted for that id below the boundary version, the run goes on; any other violation ends the run. Non-trivial = the version advanced at least once and some entity was written at a version later than the one it was created at. Distinct = hash of the sequence of (op kind, resolved entity ranks, key/label index, reused-id marker). Sampled, not exhaustive."
    }
    fn real_components(&self) -> Vec<&'static str> {
        vec![
            "samyama::graph::GraphStore: create_node_with_labels/_with_properties, create_edge/_with_properties, set_node_property, remove_node_property, add_label_to_node, remove_label_from_node, set_edge_property, remove_edge_property, delete_node, delete_edge, begin_transaction, commit_transaction, get_node_at_version, get_edge_at_version, get_node, has_node, node_count, all_nodes",
            "samyama::query::QueryEngine (MATCH (n) RETURN count(n) / id(n))",
        ]
    }
    fn assumptions(&self) -> Vec<&'static str> {
        vec![
            "state of a node = labels + non-null row properties as returned by get_node_at_version; of a relationship = endpoints, type, non-null properties; the version stamp and timestamps carried by the returned object are not compared",
            "state as of version v = the state the entity had when current_version moved past v (writes are stamped with the current version)",
            "label changes count as writes to the node (the statement says 'any history of writes'); they carry their own signature cause so they can be judged separately",
            "an entity created under the id of a deleted one is a different entity: nothing is asserted about reads of that id at versions before the new entity's creation version (they would be reads of the dead predecessor, or of nothing), everything about reads at or after it; without the reuse_ids knob ids are not reused inside a history (no create after a delete of the same kind)",
            "after one of the two listed lifetime-boundary divergences the reads of that id below the boundary version are no longer asserted (they already differ); all other reads, scans and counts stay asserted",
            "clause 3 is checked for nodes only (the statement names nodes)",
        ]
    }
    fn required_probes(&self, _tier: Tier) -> Vec<&'static str> {
        vec![
            "node_written_at_2_versions",
            "edge_written_at_2_versions",
            "entity_created_after_version_1",
            "remove_after_bump",
            "versions_ge_4",
            "node_id_reused",
            "edge_id_reused",
            "reused_node_read_at_older_version",
            "reused_edge_read_at_older_version",
            "reused_edge_after_logged_predecessor_read_at_older_version",
            "went_on_after_lifetime_boundary_divergence",
        ]
    }
    fn generate(&self, s: &mut Streams, _run_index: u64, _tier: Tier) -> Case {
        let mut case = Case::new("C07");
        let n = s.knobs.short_len(3, 16);
        let cfg = GenCfg {
            allow_delete: s.knobs.chance(1, 2),
            allow_remove: s.knobs.chance(3, 4),
            allow_labels: s.knobs.chance(1, 2),
            allow_edge_props: s.knobs.chance(3, 4),
            field_bump: s.knobs.chance(1, 3),
        };
        let late_edges = s.knobs.chance(1, 2);
        let cypher = s.knobs.chance(1, 3);
        case.knobs.insert("allow_delete".into(), json!(cfg.allow_delete));
        case.knobs.insert("allow_remove".into(), json!(cfg.allow_remove));
        case.knobs.insert("allow_labels".into(), json!(cfg.allow_labels));
        case.knobs.insert("allow_edge_props".into(), json!(cfg.allow_edge_props));
        case.knobs.insert("late_edges".into(), json!(late_edges));
        case.knobs.insert("cypher".into(), json!(cypher));
        // most histories start with the two nodes and the relationship of the quantifier
        let pre = s.knobs.below(4);
        // drawn after all other knobs, so those are what they were before this knob existed
        let reuse_ids = cfg.allow_delete && s.knobs.chance(2, 3);
        case.knobs.insert("reuse_ids".into(), json!(reuse_ids));
        // a delete-and-recreate history needs something to delete and room to go on afterwards
        let (pre, n) = if reuse_ids { (3, n + 3) } else { (pre, n) };
        if pre >= 1 {
            let p = if s.workload.chance(1, 2) { gen_props(&mut s.workload) } else { json!({}) };
            case.events.push(json!({"op":"create_node","labels":[s.workload.below(2)],"props":p}));
        }
        if pre >= 2 {
            case.events.push(json!({"op":"create_node","labels":[],"props":{}}));
        }
        if pre >= 3 {
            let p = if s.workload.chance(1, 2) { gen_props(&mut s.workload) } else { json!({}) };
            case.events.push(json!({"op":"create_edge","s":0,"t":1,"type":0,"props":p}));
        }
        // with reuse: most deletions are followed, 0..2 events later, by a creation of the same
        // kind (which then gets the freed id); `due` = countdown of pending re-creations
        let mut due: Vec<(u64, Value)> = Vec::new();
        for _ in 0..n {
            let ev = if reuse_ids && s.workload.chance(1, 3) { gen_edge_churn_event(&mut s.workload, &cfg) } else { gen_hist_event(&mut s.workload, &cfg) };
            let kind = op(&ev).to_string();
            case.events.push(ev);
            let mut i = 0;
            while i < due.len() {
                if due[i].0 == 0 {
                    let (_, e) = due.remove(i);
                    case.events.push(e);
                } else {
                    due[i].0 -= 1;
                    i += 1;
                }
            }
            if reuse_ids && kind == "create_edge" && cfg.allow_edge_props && s.workload.chance(1, 2) {
                // ... and half of the relationships are written soon after their creation
                let r = &mut s.workload;
                due.push((r.below(3), json!({"op":"set_eprop","e":r.below(4),"key":r.below(2),"val":gen_small_value(r)})));
            }
            if reuse_ids && (kind == "delete_edge" || kind == "delete_node") && s.workload.chance(2, 3) {
                let r = &mut s.workload;
                let wait = r.below(3);
                if kind == "delete_node" {
                    let props = if r.chance(1, 2) { gen_props(r) } else { json!({}) };
                    due.push((wait, json!({"op":"create_node","labels":[r.below(2)],"props":props})));
                }
                if kind == "delete_edge" || r.chance(1, 2) {
                    let props = if r.chance(1, 2) { gen_props(r) } else { json!({}) };
                    due.push((wait + (kind == "delete_node") as u64, json!({"op":"create_edge","s":r.below(8),"t":r.below(8),"type":r.below(2),"props":props})));
                }
            }
        }
        for (_, e) in due {
            case.events.push(e);
        }
        case
    }
    fn shrink_event(&self, ev: &Value) -> Vec<Value> {
        shrink_hist_event(ev)
    }
    fn stack_mb(&self) -> usize {
        8
    }
    fn execute(&self, case: &Case) -> Outcome {
        let mut o = Outcome::new();
        let mut g = GraphStore::new();
        let mut m = Model::default();
        let lim = Limits::default();
        let late_edges = case.knob_bool("late_edges", true);
        let eng = if case.knob_bool("cypher", true) { Some(QueryEngine::new()) } else { None };
        m.allow_reuse = case.knob_bool("reuse_ids", false);
        let mut rec = Recorded::default();
        let mut sig_parts: Vec<String> = Vec::new();
        for (step, ev) in case.events.iter().enumerate() {
            if op(ev) == "create_edge" && !late_edges && m.current > 1 {
                continue;
            }
            let a = apply(ev, &mut g, &mut m, &lim);
            match &a {
                Applied::Skipped => continue,
                Applied::Refused { kind, what, detail } => {
                    o.violate(Violation::new(format!("C07/{kind}/{what}"), detail.clone(), step));
                    break;
                }
                _ => {}
            }
            let kind = a.kind().to_string();
            sig_parts.push(format!("{kind}{}", a.desc()));
            o.steps += 1;
            if (kind == "remove_prop" || kind == "remove_eprop") && m.current > 1 {
                o.probe("remove_after_bump");
            }
            if kind == "create_node" && a.desc().ends_with('r') {
                o.probe("node_id_reused");
            }
            if kind == "create_edge" && a.desc().ends_with('r') {
                o.probe("edge_id_reused");
            }
            let mut c = Check { g: &g, m: &m, step, trigger: &kind, out: Vec::new(), stop: false, resynced: false, reused_reads: (0, 0, 0) };
            check_all(&mut c, &mut rec, eng.as_ref());
            if c.reused_reads.0 > 0 {
                o.probe("reused_node_read_at_older_version");
            }
            if c.reused_reads.1 > 0 {
                o.probe("reused_edge_read_at_older_version");
            }
            if c.reused_reads.2 > 0 {
                o.probe("reused_edge_after_logged_predecessor_read_at_older_version");
            }
            let (stop, resynced) = (c.stop, c.resynced);
            for v in c.out {
                o.violate(v);
            }
            if stop {
                break;
            }
            if resynced {
                o.probe("went_on_after_lifetime_boundary_divergence");
            }
        }
        let mut later_write = false;
        for n in m.nodes.values() {
            if n.write_versions.len() >= 2 {
                o.probe("node_written_at_2_versions");
                later_write = true;
            }
            if n.created_at > 1 {
                o.probe("entity_created_after_version_1");
            }
        }
        for e in m.edges.values() {
            if e.write_versions.len() >= 2 {
                o.probe("edge_written_at_2_versions");
                later_write = true;
            }
            if e.created_at > 1 {
                o.probe("entity_created_after_version_1");
            }
            if e.created_with_props && e.write_versions.len() >= 2 {
                o.probe("edge_created_with_props_then_written_later");
            }
        }
        if m.current >= 4 {
            o.probe("versions_ge_4");
        }
        o.nontrivial = m.current > 1 && later_write;
        o.class_key = hash_str(&sig_parts.join(","));
        let rv = read_vector(&g, &m, m.current);
        o.state_hash = hash_str(&format!("{:?}|{}|{}", rv, g.current_version, g.all_nodes().len()));
        tally(&o);
        o
    }
}
