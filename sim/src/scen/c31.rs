//! C31 — Raft log storage keeps one entry per index and never loses the tail.
//!
//! Real: `RaftStorage`.  Stub (played by the simulator): the leaders and the link — a
//! reference leader per term emits contiguous AppendEntries batches; the link duplicates,
//! reorders and delays them and terms change, which is what produces appends at existing
//! indices; snapshots and truncations fire at PRNG-chosen indices.

use crate::kit::core::*;
use crate::kit::exec::block_on;
use crate::kit::model::*;
use crate::kit::rng::Streams;
use samyama::raft::storage::{LogEntry, RaftStorage};
use serde_json::json;
use std::collections::BTreeMap;

pub struct C31;

#[derive(Default)]
struct ModelLog {
    entries: BTreeMap<u64, (u64, Vec<u8>)>, // index -> (term, data)
    snapshot: Option<(u64, u64)>,
}

impl ModelLog {
    fn last(&self) -> (u64, u64) {
        if let Some((i, (t, _))) = self.entries.iter().next_back() {
            (*i, *t)
        } else if let Some(s) = self.snapshot {
            s
        } else {
            (0, 0)
        }
    }
}

impl Scenario for C31 {
    fn id(&self) -> &'static str {
        "C31"
    }
    fn runs(&self, tier: Tier) -> u64 {
        match tier {
            Tier::Quick => 40_000,
            Tier::Thorough => 8_000_000,
        }
    }
    fn rule(&self) -> &'static str {
        "history = <=8 storage calls (append_entries batch of 1-3 contiguous entries starting at an index <= last+1 chosen by rank, delete_entries_from(i), create_snapshot(i, term)) over indices 1-9 and terms 1-3 (appends may leave holes), biased to <=4 calls; after each call get_entry(i) for every i, get_entries(a,b) for every a<b and get_last_log_index_term are compared with a reference log applying Raft's rule (an append at an existing index replaces it and everything after; a snapshot at i removes only entries <= i). Non-trivial = an append landed on an existing index or a snapshot was taken while entries above it existed. Distinct = hash of the resolved call sequence. The space (~35 ops ^ 6) is sampled, not enumerated."
    }
    fn real_components(&self) -> Vec<&'static str> {
        vec!["samyama::raft::storage::RaftStorage (append_entries, delete_entries_from, create_snapshot, get_entry, get_entries, get_last_log_index_term)", "tokio::sync::RwLock (polled by the simulator's executor)"]
    }
    fn stub_components(&self) -> Vec<&'static str> {
        vec!["Raft leaders and the network link: the simulator emits the AppendEntries batches, duplicates and reorders them, changes terms and decides when snapshots/truncations happen (src/raft has no replication protocol to run)"]
    }
    fn assumptions(&self) -> Vec<&'static str> {
        vec![
            "an append batch is contiguous and starts at an index the log holds (replacement), at last+1, or beyond last+1 (leaving a hole); it never starts at a missing index inside an existing hole (the property does not say what that should do)",
            "get_entries is expected in ascending index order (a log)",
        ]
    }
    fn required_probes(&self, _tier: Tier) -> Vec<&'static str> {
        vec!["append_at_existing_index", "snapshot_below_tail", "log_emptied_by_snapshot", "append_leaves_hole", "replace_after_hole", "append_at_or_below_snapshot_into_empty_log"]
    }
    fn extra_evidence(&self, _tier: Tier) -> serde_json::Map<String, serde_json::Value> {
        let mut m = serde_json::Map::new();
        m.insert("space_note".into(), json!("about 35 distinct calls per step: ~1.5e6 sequences of length 4, ~1.8e9 of length 6; sampled"));
        m
    }
    fn generate(&self, s: &mut Streams, _run_index: u64, _tier: Tier) -> Case {
        let mut case = Case::new("C31");
        let n = s.knobs.short_len(1, 8);
        let r = &mut s.workload;
        for _ in 0..n {
            match r.weighted(&[6, 2, 3]) {
                0 => {
                    // most appends are contiguous; some leave a hole behind the tail (the
                    // property quantifies over all operation sequences, and a hole is what
                    // makes "position of an index" differ from "index minus first index")
                    let gap = if r.chance(1, 5) { 1 + r.below(2) } else { 0 };
                    case.events.push(json!({"op":"append","at":r.below(8),"len":1 + r.below(3),"term":r.below(3),"gap":gap,"below_snap":r.chance(1, 5)}))
                }
                1 => case.events.push(json!({"op":"truncate","at":r.below(8)})),
                _ => case.events.push(json!({"op":"snapshot","at":r.below(8)})),
            }
        }
        case
    }
    fn execute(&self, case: &Case) -> Outcome {
        let mut o = Outcome::new();
        let scratch = std::env::var("VERIF_SCRATCH").unwrap_or_else(|_| "/dev/shm".into());
        let dir = format!("{scratch}/c31");
        let st = match RaftStorage::new(&dir) {
            Ok(s) => s,
            Err(e) => {
                o.violate(Violation::new("C31/new/failed", format!("{e}"), 0));
                return o;
            }
        };
        let mut m = ModelLog::default();
        let mut seq: Vec<String> = Vec::new();
        let mut uniq = 0u8;
        'outer: for (step, ev) in case.events.iter().enumerate() {
            let kind = op(ev).to_string();
            let (last_i, last_t) = m.last();
            let snap_i = m.snapshot.map(|s| s.0).unwrap_or(0);
            match kind.as_str() {
                "append" => {
                    // first index: an index the log already holds (replacement), or last+1,
                    // or — with a gap — beyond last+1 (leaves a hole). Never a missing index
                    // inside an existing hole: what that should do is not stated.
                    let mut cands: Vec<u64> = m.entries.keys().cloned().filter(|i| *i > snap_i).collect();
                    let tail = last_i.max(snap_i) + 1;
                    cands.push(tail);
                    let gap = u(ev, "gap");
                    // with an EMPTY log (everything compacted into the snapshot) an append may
                    // also land at or below the snapshot index: the log then holds exactly that
                    // batch, and it — not the snapshot — is the newest retained entry
                    let below = ev["below_snap"].as_bool().unwrap_or(false) && m.entries.is_empty() && snap_i >= 1;
                    let first = if below {
                        o.probe("append_at_or_below_snapshot_into_empty_log");
                        1 + u(ev, "at") % snap_i
                    } else if gap > 0 {
                        tail + gap
                    } else {
                        cands[(u(ev, "at") as usize) % cands.len()]
                    };
                    if first > 9 {
                        continue;
                    }
                    if gap > 0 {
                        o.probe("append_leaves_hole");
                    }
                    // term >= term of the entry preceding `first`
                    let prev_t = if first > 1 { m.entries.get(&(first - 1)).map(|e| e.0).or(m.snapshot.filter(|s| s.0 == first - 1).map(|s| s.1)).unwrap_or(last_t.min(1)) } else { 1 };
                    let term = (prev_t.max(1) + u(ev, "term")).min(3).max(prev_t.max(1));
                    let len = u(ev, "len").max(1).min(10 - first);
                    let mut batch = Vec::new();
                    for k in 0..len {
                        uniq = uniq.wrapping_add(1);
                        batch.push(LogEntry { index: first + k, term, data: vec![uniq, (first + k) as u8, term as u8] });
                    }
                    if m.entries.contains_key(&first) {
                        o.probe("append_at_existing_index");
                        o.nontrivial = true;
                        let held: Vec<u64> = m.entries.keys().cloned().collect();
                        if held.windows(2).any(|w| w[1] != w[0] + 1) && held.iter().any(|i| *i < first) {
                            o.probe("replace_after_hole");
                        }
                    }
                    if let Err(e) = block_on(st.append_entries(batch.clone())) {
                        o.violate(Violation::new("C31/append_entries/refused", format!("{e}"), step));
                        break 'outer;
                    }
                    let drop: Vec<u64> = m.entries.range(first..).map(|(i, _)| *i).collect();
                    for i in drop {
                        m.entries.remove(&i);
                    }
                    for e in batch {
                        m.entries.insert(e.index, (e.term, e.data));
                    }
                    seq.push(format!("a{first}+{len}t{term}"));
                }
                "truncate" => {
                    let at = 1 + u(ev, "at") % 10;
                    if at <= snap_i {
                        continue;
                    }
                    if let Err(e) = block_on(st.delete_entries_from(at)) {
                        o.violate(Violation::new("C31/delete_entries_from/refused", format!("{e}"), step));
                        break 'outer;
                    }
                    let drop: Vec<u64> = m.entries.range(at..).map(|(i, _)| *i).collect();
                    for i in drop {
                        m.entries.remove(&i);
                    }
                    seq.push(format!("t{at}"));
                }
                "snapshot" => {
                    // snapshot of applied state: snap_i < i <= last index
                    if last_i <= snap_i {
                        continue;
                    }
                    let at = snap_i + 1 + u(ev, "at") % (last_i - snap_i);
                    let term = m.entries.get(&at).map(|e| e.0).unwrap_or(last_t);
                    if m.entries.range(at + 1..).next().is_some() {
                        o.probe("snapshot_below_tail");
                        o.nontrivial = true;
                    } else {
                        o.probe("log_emptied_by_snapshot");
                    }
                    if let Err(e) = block_on(st.create_snapshot(at, term, vec![1, 2, 3])) {
                        o.violate(Violation::new("C31/create_snapshot/refused", format!("{e}"), step));
                        break 'outer;
                    }
                    let drop: Vec<u64> = m.entries.range(..=at).map(|(i, _)| *i).collect();
                    for i in drop {
                        m.entries.remove(&i);
                    }
                    m.snapshot = Some((at, term));
                    seq.push(format!("s{at}"));
                }
                _ => continue,
            }
            o.steps += 1;
            // ---- oracle
            for i in 0..=12u64 {
                let got = block_on(st.get_entry(i));
                let want = m.entries.get(&i);
                match (got, want) {
                    (None, None) => {}
                    (Some(g), Some(w)) => {
                        if g.term != w.0 || g.data != w.1 || g.index != i {
                            o.violate(Violation::new(format!("C31/get_entry/stale_entry_after_{kind}"), format!("step {step}: index {i}: got term {} data {:?}, want term {} data {:?}", g.term, g.data, w.0, w.1), step));
                            break 'outer;
                        }
                    }
                    (Some(g), None) => {
                        o.violate(Violation::new(format!("C31/get_entry/removed_entry_still_present_after_{kind}"), format!("step {step}: index {i} returns term {}, model has none", g.term), step));
                        break 'outer;
                    }
                    (None, Some(_)) => {
                        o.violate(Violation::new(format!("C31/get_entry/entry_lost_after_{kind}"), format!("step {step}: index {i} missing"), step));
                        break 'outer;
                    }
                }
            }
            for a in 0..=11u64 {
                for b in a + 1..=12u64 {
                    let got: Vec<(u64, u64, Vec<u8>)> = block_on(st.get_entries(a, b)).into_iter().map(|e| (e.index, e.term, e.data)).collect();
                    let want: Vec<(u64, u64, Vec<u8>)> = m.entries.range(a..b).map(|(i, e)| (*i, e.0, e.1.clone())).collect();
                    if got != want {
                        let mut idx: Vec<u64> = got.iter().map(|x| x.0).collect();
                        let n0 = idx.len();
                        idx.sort();
                        idx.dedup();
                        let class = if idx.len() != n0 {
                            "duplicate_index"
                        } else if got.len() < want.len() {
                            "entries_lost"
                        } else if got.len() > want.len() {
                            "extra_entries"
                        } else {
                            "wrong_content_or_order"
                        };
                        o.violate(Violation::new(format!("C31/get_entries/{class}_after_{kind}"), format!("step {step}: [{a},{b}): got {:?} want {:?}", got.iter().map(|x| (x.0, x.1)).collect::<Vec<_>>(), want.iter().map(|x| (x.0, x.1)).collect::<Vec<_>>()), step));
                        break 'outer;
                    }
                }
            }
            let got = block_on(st.get_last_log_index_term());
            if got != m.last() {
                o.violate(Violation::new(format!("C31/get_last_log_index_term/after_{kind}"), format!("step {step}: got {:?} want {:?}", got, m.last()), step));
                break 'outer;
            }
            if block_on(st.get_snapshot_metadata()) != m.snapshot {
                o.violate(Violation::new("C31/get_snapshot_metadata/mismatch", format!("step {step}"), step));
                break 'outer;
            }
        }
        o.class_key = hash_str(&seq.join(","));
        o.state_hash = hash_str(&format!("{:?}{:?}", m.entries, m.snapshot));
        o
    }
}
