pub mod c06;
pub mod c07;
pub mod c08;
pub mod c09;
pub mod c16;
pub mod c17;
pub mod c18;
pub mod c30;
pub mod c31;
pub mod c33;
pub mod c14;
pub mod c15;
pub mod c19;
pub mod c23;
pub mod c24;
pub mod c28;
pub mod c29;
pub mod c32;
pub mod c04;
pub mod c05;
pub mod c11;
pub mod c12;
pub mod c13;
pub mod c20;
pub mod c21;
pub mod c22;
pub mod c02;
pub mod c03;

use crate::kit::core::Scenario;

pub fn registry() -> Vec<Box<dyn Scenario>> {
    vec![Box::new(c03::C03), Box::new(c02::C02), Box::new(c22::C22), Box::new(c21::C21), Box::new(c20::C20), Box::new(c13::C13), Box::new(c12::C12), Box::new(c11::C11), Box::new(c05::C05), Box::new(c04::C04), Box::new(c32::C32), Box::new(c29::C29), Box::new(c28::C28), Box::new(c24::C24), Box::new(c23::C23), Box::new(c19::C19), Box::new(c15::C15), Box::new(c14::C14), Box::new(c06::C06), Box::new(c07::C07), Box::new(c08::C08), Box::new(c09::C09), Box::new(c16::C16), Box::new(c17::C17), Box::new(c18::C18), Box::new(c30::C30), Box::new(c31::C31), Box::new(c33::C33)]
}
