pub mod c06;
pub mod c30;
pub mod c31;
pub mod c33;

use crate::kit::core::Scenario;

pub fn registry() -> Vec<Box<dyn Scenario>> {
    vec![Box::new(c06::C06), Box::new(c30::C30), Box::new(c31::C31), Box::new(c33::C33)]
}
