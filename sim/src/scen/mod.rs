pub mod c06;
pub mod c07;
pub mod c08;
pub mod c09;
pub mod c16;
pub mod c17;
pub mod c18;
pub mod c30;
pub mod c31;
pub mod c33;

use crate::kit::core::Scenario;

pub fn registry() -> Vec<Box<dyn Scenario>> {
    vec![Box::new(c06::C06), Box::new(c07::C07), Box::new(c08::C08), Box::new(c09::C09), Box::new(c16::C16), Box::new(c17::C17), Box::new(c18::C18), Box::new(c30::C30), Box::new(c31::C31), Box::new(c33::C33)]
}
