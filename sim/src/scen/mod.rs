pub mod c06;

use crate::kit::core::Scenario;

pub fn registry() -> Vec<Box<dyn Scenario>> {
    vec![Box::new(c06::C06)]
}
