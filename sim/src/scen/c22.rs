//! C22 — every server reply is exactly one well-formed RESP frame.
//!
//! Sim: the harness is the client of the REAL `handle_connection` (over a `SimStream`, polled
//! by `kit::exec::Tasks`).  The workload places CR, LF, CRLF (and a CRLF followed by a fake
//! `+OK` frame: response splitting) at the start / middle / end of every position whose
//! content the server can echo or return: unknown command name (RESP and inline form), graph
//! name, query text that fails to parse, query text that fails at run time and quotes a string
//! literal, string literals that are returned, property values stored by one request and
//! returned — or quoted in an error — by a later one, message arguments, non-UTF-8 names,
//! malformed frames answered by the connection loop itself.
//! Requests are always delivered whole (splitting inside a frame is C20's subject), either one
//! at a time (the reply to each is read before the next is sent) or pipelined in one delivery
//! between two marker ECHOs.
//! Two further dimensions of "a reply":
//!  * SHAPE — query results whose cells are lists / maps nested to depths around and beyond the
//!    depth the server's own decoder reads (`RespValue::MAX_NESTING_DEPTH`): a reply is one
//!    frame however deep its arrays nest (or an error frame if the server will not send it);
//!  * TRANSPORT — in most runs the connection accepts only a few bytes per `write` call (short
//!    writes, as a socket with a full send buffer does) and returns spurious `Pending`: the
//!    bytes the client receives for a request must still be the whole frame.
//! Oracle: `kit::respwire` strict reader — the bytes written for a request are exactly one
//! frame with nothing left over; the frame answers that request (equals the twin's reply from
//! `handle_command`; when the twin's reply is a simple error whose text contains CR/LF — i.e.
//! cannot be written verbatim — only the type and the text before the first CR/LF are compared).

use crate::kit::core::*;
use crate::kit::model::op;
use crate::kit::respsim::*;
use crate::kit::respwire::{self as w, HVal, Parsed};
use crate::kit::rng::{Rng, Streams};
use serde_json::{json, Value};

pub struct C22;

const INJ: [(&str, &str); 6] = [("cr", "\r"), ("lf", "\n"), ("crlf", "\r\n"), ("crlf_frame", "\r\n+OK\r\n"), ("lflf", "\n\n"), ("none", "")];
const WHERE: [&str; 3] = ["start", "mid", "end"];
pub const TEMPLATES: [&str; 16] = [
    "unknown_cmd",
    "unknown_cmd_inline",
    "graph_name",
    "query_syntax_error",
    "query_unknown_variable",
    "string_literal_returned",
    "string_literal_in_error",
    "stored_then_returned",
    "stored_then_in_error",
    "alias_whitespace",
    "message_argument",
    "non_utf8_command",
    "malformed_frame",
    "wrong_arity",
    "regex_in_error",
    "non_command_frame",
];

/// Result values that nest: the reply is `[header, row]`, the row an array of cells, so a cell
/// nested `depth` levels gives a reply of `depth + 2` array levels.
pub const NESTED: [&str; 4] = ["nested_with_chain", "nested_list_of_variables", "nested_map_of_variables", "nested_list_map_mixed"];
/// Cell depths of the systematic block: shallow, then every depth around the one at which the
/// reply reaches the decoder's limit (cell depth 126 = 128 levels), then well beyond.
pub const DEPTHS: [u64; 17] = [1, 2, 16, 60, 98, 120, 122, 123, 124, 125, 126, 127, 128, 129, 130, 160, 198];
/// Levels of array nesting the server's own decoder reads.
const DECODER_LEVELS: usize = samyama::protocol::resp::RespValue::MAX_NESTING_DEPTH;

fn levels(v: &HVal) -> usize {
    match v {
        HVal::Array(xs) => 1 + xs.iter().map(levels).max().unwrap_or(0),
        _ => 0,
    }
}

/// A query whose single cell nests `depth` levels around `[7, '<lit>']`.  The lists / maps are
/// built from variables: a collection literal made of constants only is folded into one property
/// value by the parser and comes back as a single bulk string (no nesting on the wire).
fn nested_query(tmpl: &str, depth: u64, lit: &str) -> String {
    let d = depth.max(1) as usize;
    let vars = format!("WITH 7 AS a, '{lit}' AS b");
    match tmpl {
        "nested_list_of_variables" => format!("{vars} RETURN {}a, b{} AS nested", "[".repeat(d), "]".repeat(d)),
        "nested_map_of_variables" => format!("{vars} RETURN {}[a, b]{} AS nested", "{k: ".repeat(d - 1), "}".repeat(d - 1)),
        "nested_list_map_mixed" => {
            // alternate map and list levels, innermost first
            let mut v = String::from("[a, b]");
            for i in 1..d {
                v = if i % 2 == 1 { format!("{{k: {v}}}") } else { format!("[{v}, a]") };
            }
            format!("{vars} RETURN {v} AS nested")
        }
        _ => {
            let mut q = format!("{vars} WITH [a, b] AS x1");
            for i in 2..=d {
                q.push_str(&format!(" WITH [x{}] AS x{}", i - 1, i));
            }
            q.push_str(&format!(" RETURN x{d} AS nested"));
            q
        }
    }
}

fn place(base: &str, inj: &str, wh: &str) -> String {
    match wh {
        "start" => format!("{inj}{base}"),
        "end" => format!("{base}{inj}"),
        _ => {
            let k = base.len() / 2;
            format!("{}{inj}{}", &base[..k], &base[k..])
        }
    }
}

fn bulk(s: &[u8]) -> HVal {
    HVal::Bulk(Some(s.to_vec()))
}

fn cmd(words: &[&[u8]]) -> Vec<u8> {
    w::encoded(&HVal::Array(words.iter().map(|x| bulk(x)).collect()))
}

fn gq(q: &str) -> Vec<u8> {
    cmd(&[b"GRAPH.QUERY", b"default", q.as_bytes()])
}

/// The requests (wire bytes) of one template instance.  The LAST request is the one whose
/// reply carries the injected text; earlier ones prepare state.
fn build(tmpl: &str, inj: &str, wh: &str, uniq: u64, depth: u64) -> Vec<Vec<u8>> {
    // string-literal bodies must not contain the quote or a backslash
    // (one two-byte character: a reply whose length counted characters instead of bytes would show)
    let lit = place("hello w\u{f6}rld", inj, wh);
    match tmpl {
        "unknown_cmd" => vec![cmd(&[place("FOOBAR", inj, wh).as_bytes(), b"x"])],
        "unknown_cmd_inline" => {
            // bare CR / LF inside the word where the line syntax allows it, else quoted escapes
            let word = place("FOOBAR", inj, wh);
            let line = if word.contains("\r\n") || word.starts_with(['\r', '\n']) || word.ends_with('\r') {
                w::inline_line(&[word.into_bytes(), b"x".to_vec()], false, " ")
            } else {
                let mut l = word.into_bytes();
                l.extend_from_slice(b" x\r\n");
                l
            };
            vec![line]
        }
        "graph_name" => vec![cmd(&[b"GRAPH.QUERY", place("mygraph", inj, wh).as_bytes(), b"RETURN 1"])],
        "query_syntax_error" => vec![gq(&place("MATCH (n RETURN n )(", inj, wh))],
        "query_unknown_variable" => vec![gq(&format!("MATCH (n){inj}RETURN{}zzz", if inj.is_empty() { " " } else { inj }))],
        "string_literal_returned" => vec![gq(&format!("RETURN '{lit}'"))],
        "string_literal_in_error" => vec![gq(&format!("RETURN {}('{lit}')", if uniq % 2 == 0 { "date" } else { "toBoolean" }))],
        "stored_then_returned" => vec![gq(&format!("CREATE (n:S{uniq} {{p: '{lit}'}})")), gq(&format!("MATCH (n:S{uniq}) RETURN n.p"))],
        "stored_then_in_error" => vec![gq(&format!("CREATE (n:T{uniq} {{p: '{lit}'}})")), gq(&format!("MATCH (n:T{uniq}) RETURN date(n.p)"))],
        "alias_whitespace" => vec![gq(&format!("RETURN 'v'{}AS{}col", if inj.is_empty() { " " } else { inj }, if inj.is_empty() { " " } else { inj }))],
        "message_argument" => vec![if uniq % 2 == 0 { cmd(&[b"PING", lit.as_bytes()]) } else { cmd(&[b"ECHO", lit.as_bytes()]) }],
        "non_utf8_command" => {
            let mut name = vec![0xffu8, 0xfe];
            name.extend_from_slice(inj.as_bytes());
            vec![cmd(&[&name, b"x"])]
        }
        "malformed_frame" => {
            // answered by the connection loop, not the command handler; keep the stream in sync afterwards
            let body = place("12x4", inj, wh);
            let body = body.replace("\r\n", "\r"); // one line only, otherwise it is several requests
            vec![format!(":{body}\r\n").into_bytes()]
        }
        "wrong_arity" => vec![cmd(&[b"GRAPH.QUERY", lit.as_bytes()])],
        "regex_in_error" => vec![gq(&format!("RETURN 'abc' =~ '({lit}'"))],
        t if t.starts_with("nested_") => vec![gq(&nested_query(t, depth, &lit))],
        _ => vec![w::encoded(&HVal::Simple(b"hello".to_vec()))],
    }
}

fn marker(k: u64) -> Vec<u8> {
    cmd(&[b"ECHO", format!("marker-{k}").as_bytes()])
}

fn inj_of(name: &str) -> &'static str {
    INJ.iter().find(|(n, _)| *n == name).map(|(_, s)| *s).unwrap_or("")
}

fn unencodable(v: &HVal) -> bool {
    match v {
        HVal::Simple(s) | HVal::Error(s) => s.iter().any(|c| *c == b'\r' || *c == b'\n'),
        HVal::Array(xs) => xs.iter().any(unencodable),
        _ => false,
    }
}

/// Does `got` answer the request whose twin reply is `want`?
fn answers(got: &HVal, want: &HVal) -> bool {
    if !unencodable(want) {
        return got == want;
    }
    match (got, want) {
        (HVal::Error(g), HVal::Error(t)) | (HVal::Simple(g), HVal::Simple(t)) => {
            let k = t.iter().position(|c| *c == b'\r' || *c == b'\n').unwrap_or(t.len());
            g.len() >= k && g[..k] == t[..k]
        }
        (HVal::Array(g), HVal::Array(t)) => g.len() == t.len() && g.iter().zip(t).all(|(a, b)| answers(a, b)),
        _ => false,
    }
}

struct Req {
    bytes: Vec<u8>,
    tmpl: String,
    inj: String,
    /// false for preparation requests and markers
    target: bool,
}

impl Scenario for C22 {
    fn id(&self) -> &'static str {
        "C22"
    }
    fn runs(&self, tier: Tier) -> u64 {
        let systematic = grid_runs() + nested_runs();
        match tier {
            Tier::Quick => systematic + 1_500,
            Tier::Thorough => systematic + 120_000,
        }
    }
    fn rule(&self) -> &'static str {
        "runs 0..288 enumerate template x newline kind x position (16 x 6 x 3), runs 288..356 enumerate nested-result shape x cell depth (4 x 17: WITH [x] AS y chains, list / map / mixed collection expressions over variables, reply nesting 3..200 array levels with every level from 122 to 132, i.e. around the decoder's limit of 128), each sent alone and then pipelined between two marker ECHOs; later runs are PRNG sequences of 2-12 template instances (1 in 16 a nested result) on one connection, delivered one request at a time or several per delivery. Every run draws the connection's write behaviour: unlimited, or at most 1..max_write bytes accepted per write call (max_write 1/3/7/64/1000) and spurious Pending. Non-trivial = at least one request carried CR/LF into an echoable position or asked for a nested result. Distinct = hash of (template, newline kind, position, depth, delivery mode) list + write limit. evaluations counts requests."
    }
    fn real_components(&self) -> Vec<&'static str> {
        vec![
            "protocol::server::handle_connection (protocol-error replies, write path)",
            "protocol::command::CommandHandler::handle_command (error formatting, format_query_result)",
            "protocol::resp::RespValue::encode / decode",
            "query::QueryEngine (parse and run-time errors that quote input), graph::GraphStore (stored values)",
        ]
    }
    fn stub_components(&self) -> Vec<&'static str> {
        vec!["TcpStream -> kit::stream::SimStream", "tokio runtime -> kit::exec::Tasks"]
    }
    fn assumptions(&self) -> Vec<&'static str> {
        vec![
            "kit::respwire strict reader: a simple string / simple error line containing a bare CR or a bare LF is NOT well-formed (RESP spec: 'cannot contain a CR or LF'); bare CR and bare LF get their own signature class so the reading can be weakened without touching the CRLF class",
            "'reply k answers request k': equals the twin's handle_command reply; for a simple error whose text cannot be written verbatim only the type and the text before the first CR/LF are compared",
            "requests are delivered whole: chunking inside a frame is C20's subject",
            "a reply may nest arbitrarily deep: the property has no depth bound, so a result the server computed must reach the client as one frame (or be refused with one error frame - the twin then reports the same error); the reference reader accepts 256 levels, the deepest generated reply has 200",
            "the connection may accept fewer bytes than offered in a write call (AsyncWrite contract): the frame the client receives is still whole; replies are read when every server task waits for input",
        ]
    }
    fn required_probes(&self, _tier: Tier) -> Vec<&'static str> {
        vec!["echo_error_reply", "bulk_reply_with_newline", "pipelined_with_markers", "stored_value_returned_later", "protocol_error_reply", "multi_request_delivery", "nested_reply_below_decoder_limit", "nested_reply_at_decoder_limit", "nested_reply_beyond_decoder_limit", "nested_reply_pipelined", "reply_longer_than_one_write", "reply_written_in_one_call"]
    }
    fn generate(&self, s: &mut Streams, run_index: u64, _tier: Tier) -> Case {
        let mut case = Case::new("C22");
        // how the connection takes the server's writes (a conforming server loops until the whole reply is written)
        let mw = *s.knobs.pick(&[0u64, 0, 1, 3, 7, 64, 1000]);
        let pend = *s.knobs.pick(&[0u64, 0, 0, 2, 3, 5]);
        case.knobs.insert("max_write".into(), json!(mw));
        case.knobs.insert("pending_1_in".into(), json!(pend));
        let mut d: Vec<u64> = (0..48).map(|_| s.fault.below(1 << 16)).collect();
        d[0] = 1; // never an all-zero list: spurious Pending cannot repeat forever
        case.knobs.insert("decisions".into(), json!(d));
        let systematic = grid_runs();
        if run_index >= systematic && run_index < systematic + nested_runs() {
            let k = (run_index - systematic) as usize;
            let (t, dp) = (k / DEPTHS.len(), k % DEPTHS.len());
            case.knobs.insert("mode".into(), json!("systematic"));
            // the innermost list holds an integer and a string; every other run puts a CRLF into the string
            let i = if k % 2 == 0 { "crlf" } else { "none" };
            case.events.push(json!({"op":"req","tmpl":NESTED[t],"inj":i,"where":"mid","u":1,"depth":DEPTHS[dp]}));
            return case;
        }
        if run_index < systematic {
            let t = (run_index as usize) / (INJ.len() * WHERE.len());
            let i = ((run_index as usize) / WHERE.len()) % INJ.len();
            let wq = (run_index as usize) % WHERE.len();
            case.knobs.insert("mode".into(), json!("systematic"));
            case.events.push(json!({"op":"req","tmpl":TEMPLATES[t],"inj":INJ[i].0,"where":WHERE[wq],"u":1}));
            return case;
        }
        case.knobs.insert("mode".into(), json!("sequence"));
        let n = 2 + s.knobs.usize_below(11);
        let batchy = s.knobs.below(3); // 0: one at a time, 1: random batches, 2: everything in one delivery
        for k in 0..n {
            let nested = s.workload.chance(1, 16);
            let t = if nested { *s.workload.pick(&NESTED) } else { *s.workload.pick(&TEMPLATES) };
            let i = s.workload.pick(&INJ).0;
            let wq = *s.workload.pick(&WHERE);
            let mut ev = json!({"op":"req","tmpl":t,"inj":i,"where":wq,"u":k as u64 + 2});
            if nested {
                // half of them within 6 levels of the decoder's limit (cell depth 126 = 128 levels)
                let dp = match s.workload.below(4) {
                    0 => 1 + s.workload.below(12),
                    1 => 13 + s.workload.below(186),
                    _ => 120 + s.workload.below(13),
                };
                ev["depth"] = json!(dp);
            }
            case.events.push(ev);
            let flush = match batchy {
                0 => true,
                1 => s.sched.chance(1, 2),
                _ => false,
            };
            if flush {
                case.events.push(json!({"op":"flush"}));
            }
        }
        case
    }
    fn shrink_event(&self, ev: &Value) -> Vec<Value> {
        let mut out = Vec::new();
        if op(ev) == "req" {
            if ev["where"] != json!("mid") {
                let mut e = ev.clone();
                e["where"] = json!("mid");
                out.push(e);
            }
            if let Some(d) = ev["depth"].as_u64() {
                for nd in [d / 2, d.saturating_sub(8), d.saturating_sub(1)] {
                    if nd >= 1 && nd < d {
                        let mut e = ev.clone();
                        e["depth"] = json!(nd);
                        out.push(e);
                    }
                }
                if ev["inj"] != json!("none") {
                    let mut e = ev.clone();
                    e["inj"] = json!("none");
                    out.push(e);
                }
            }
        }
        out
    }
    fn execute(&self, case: &Case) -> Outcome {
        let mut o = Outcome::new();
        let systematic = case.knob_str("mode", "sequence") == "systematic";
        // ---- deliveries: each a list of requests
        let mut deliveries: Vec<Vec<Req>> = Vec::new();
        let mut cur: Vec<Req> = Vec::new();
        let mut keyparts: Vec<String> = Vec::new();
        let mut mk = 0u64;
        for ev in &case.events {
            match op(ev) {
                "req" => {
                    let tmpl = ev["tmpl"].as_str().unwrap_or("unknown_cmd").to_string();
                    let injn = ev["inj"].as_str().unwrap_or("none").to_string();
                    let wh = ev["where"].as_str().unwrap_or("mid").to_string();
                    let uniq = ev["u"].as_u64().unwrap_or(0);
                    let depth = ev["depth"].as_u64().unwrap_or(1).clamp(1, 250);
                    let reqs = build(&tmpl, inj_of(&injn), &wh, uniq, depth);
                    let n = reqs.len();
                    let is_nested = tmpl.starts_with("nested_");
                    keyparts.push(format!("{tmpl}/{injn}/{wh}/{}", if is_nested { depth } else { 0 }));
                    // signature class of a nested result: does the reply (cell depth + 2 levels) stay below the
                    // nesting the server's own decoder reads?
                    let tmpl = if !is_nested {
                        tmpl
                    } else if (depth as usize) + 2 < DECODER_LEVELS {
                        format!("{tmpl}/below_decoder_limit")
                    } else {
                        format!("{tmpl}/at_or_beyond_decoder_limit")
                    };
                    let mk_req = |bytes: Vec<u8>, target: bool| Req { bytes, tmpl: tmpl.clone(), inj: injn.clone(), target };
                    if injn != "none" || is_nested {
                        o.nontrivial = true;
                    }
                    if systematic {
                        // alone, one request per delivery …
                        for (k, b) in reqs.iter().enumerate() {
                            deliveries.push(vec![mk_req(b.clone(), k + 1 == n)]);
                        }
                        // … then the target pipelined between markers (state-preparing requests were already run)
                        let last = reqs.last().unwrap().clone();
                        let m1 = Req { bytes: marker(1), tmpl: "marker".into(), inj: "none".into(), target: false };
                        let m2 = Req { bytes: marker(2), tmpl: "marker".into(), inj: "none".into(), target: false };
                        if is_nested {
                            o.probe("nested_reply_pipelined");
                        }
                        if tmpl == "malformed_frame" {
                            // after a protocol error the connection loop waits for the next read before
                            // it looks at already-buffered frames; that (liveness after garbage) is not
                            // this property, so nothing is pipelined BEHIND a malformed frame
                            deliveries.push(vec![m1, mk_req(last, true)]);
                            deliveries.push(vec![m2]);
                        } else {
                            deliveries.push(vec![m1, mk_req(last, true), m2]);
                        }
                        o.probe("pipelined_with_markers");
                    } else {
                        for (k, b) in reqs.into_iter().enumerate() {
                            cur.push(mk_req(b, k + 1 == n));
                        }
                        if tmpl == "malformed_frame" {
                            deliveries.push(std::mem::take(&mut cur));
                        } else if s_chance(uniq) {
                            mk += 1;
                            cur.push(Req { bytes: marker(100 + mk), tmpl: "marker".into(), inj: "none".into(), target: false });
                        }
                    }
                }
                "flush" => {
                    if !cur.is_empty() {
                        deliveries.push(std::mem::take(&mut cur));
                    }
                }
                _ => {}
            }
        }
        if !cur.is_empty() {
            deliveries.push(cur);
        }
        if deliveries.is_empty() {
            o.state_hash = 1;
            return o;
        }
        // ---- the request bytes must themselves be requests the reference reader understands
        // (except the deliberately malformed one); the twin gets the parsed frames
        let twin = Twin::new();
        let decisions: Vec<u64> = case.knobs.get("decisions").and_then(|v| v.as_array()).map(|a| a.iter().filter_map(|x| x.as_u64()).collect()).unwrap_or_default();
        let cfg = StreamCfg {
            pending_1_in: case.knob_u64("pending_1_in", 0),
            max_write: case.knob_u64("max_write", 0) as usize,
            decisions: if decisions.iter().all(|x| *x == 0) { vec![1] } else { decisions },
        };
        keyparts.push(format!("mw{}", cfg.max_write));
        let mut sim = ServerSim::new(&[cfg]);
        let mut seen = sim.stats(0);
        let mut state = 0u64;
        let mut total = 0u64;
        'outer: for (di, del) in deliveries.iter().enumerate() {
            if del.len() > 1 {
                o.probe("multi_request_delivery");
            }
            // expected replies
            let mut want: Vec<Option<HVal>> = Vec::new();
            for r in del {
                total += 1;
                match w::parse_request(&r.bytes) {
                    Parsed::Frame(f, n) if n == r.bytes.len() => match twin.reply(&f) {
                        Ok(v) => want.push(Some(v)),
                        Err(msg) => {
                            o.violate(Violation::new(format!("C22/handler_panic/{}/{}", r.tmpl, r.inj), format!("handle_command panicked on {}: {msg}", w::show(&r.bytes)), di));
                            break 'outer;
                        }
                    },
                    _ => {
                        // malformed on purpose: the reply comes from the connection loop; only "one frame" is judged
                        want.push(None);
                        o.probe("protocol_error_reply");
                    }
                }
            }
            let mut bytes = Vec::new();
            for r in del {
                bytes.extend_from_slice(&r.bytes);
            }
            sim.deliver(0, bytes);
            // guard: a poll either ends in a spurious Pending (then the next call moves >= 1 byte) or in a real wait
            let want_bytes: usize = want.iter().flatten().map(|v| w::encoded(v).len()).sum();
            if sim.run_until_stalled(|_| 0, 100_000 + 8 * want_bytes as u64).is_none() {
                o.violate(Violation::new("C22/livelock", "server task never stalls", di));
                break;
            }
            o.steps += 1;
            let out = sim.streams[0].take_output();
            state = state.rotate_left(7) ^ crate::kit::rng::fnv1a(&out);
            if std::env::var_os("C22_DEBUG").is_some() {
                // development aid only (never set by the runner): what was asked and what came back
                eprintln!("delivery {di}: {} requests, {} reply bytes: {}", del.len(), out.len(), w::show(&out[..out.len().min(300)]));
                for (r, wv) in del.iter().zip(&want) {
                    eprintln!("  {} -> twin levels {:?}", w::show(&r.bytes[..r.bytes.len().min(120)]), wv.as_ref().map(levels));
                }
            }
            // what the transport did to this delivery's replies
            let st = sim.stats(0);
            let short = st.short_writes > seen.short_writes;
            if short {
                o.fault("short_write");
                o.probe("reply_longer_than_one_write");
            } else if st.writes > seen.writes {
                o.probe("reply_written_in_one_call");
            }
            if st.spurious_pending > seen.spurious_pending {
                o.fault("spurious_pending");
            }
            seen = st;
            // state class of a violation: a reply stream that is broken when the connection took this
            // delivery's replies in pieces is classed by that (one transport defect = one signature,
            // whatever was asked); otherwise by the template and newline kind of the request
            let class_of = |b: &Req| -> String { if short { "short_write".to_string() } else { format!("{}/{}", b.tmpl, b.inj) } };
            if let Some(msg) = &sim.panicked[0] {
                o.violate(Violation::new(format!("C22/connection_panic/{}/{}", del[0].tmpl, del[0].inj), format!("delivery {di}: {msg}"), di));
                break;
            }
            // read the replies one frame at a time
            let mut pos = 0usize;
            for (k, r) in del.iter().enumerate() {
                let mode = if del.len() == 1 { "single" } else { "pipelined" };
                // a malformed reply usually belongs to the nearest echoing request at or before k
                let blame = |k: usize| -> &Req { del[..=k].iter().rev().find(|x| x.target).unwrap_or(&del[k]) };
                match w::parse_frame(&out[pos..]) {
                    Parsed::Frame(f, n) => {
                        if let HVal::Error(_) = &f {
                            if r.target && r.inj != "none" {
                                o.probe("echo_error_reply");
                            }
                        }
                        if let HVal::Bulk(Some(b)) = &f {
                            if b.iter().any(|c| *c == b'\r' || *c == b'\n') {
                                o.probe("bulk_reply_with_newline");
                            }
                        }
                        fn has_nl_bulk(v: &HVal) -> bool {
                            match v {
                                HVal::Bulk(Some(b)) => b.iter().any(|c| *c == b'\r' || *c == b'\n'),
                                HVal::Array(xs) => xs.iter().any(has_nl_bulk),
                                _ => false,
                            }
                        }
                        if r.tmpl.starts_with("nested_") && matches!(f, HVal::Array(_)) {
                            let lv = levels(&f);
                            if lv + 6 >= DECODER_LEVELS && lv < DECODER_LEVELS {
                                o.probe("nested_reply_below_decoder_limit");
                            } else if lv == DECODER_LEVELS {
                                o.probe("nested_reply_at_decoder_limit");
                            } else if lv > DECODER_LEVELS {
                                o.probe("nested_reply_beyond_decoder_limit");
                            }
                        }
                        if r.tmpl == "stored_then_returned" && r.target && has_nl_bulk(&f) {
                            o.probe("stored_value_returned_later");
                            o.probe("bulk_reply_with_newline");
                        }
                        let ok = match &want[k] {
                            Some(wv) => answers(&f, wv),
                            None => matches!(f, HVal::Error(_)),
                        };
                        if !ok {
                            let b = blame(k);
                            o.violate(Violation::new(
                                format!("C22/reply_does_not_answer_request/{mode}/{}", class_of(b)),
                                format!(
                                    "delivery {di} request #{k} {}: reply {} ; the handler's reply for it is {}",
                                    w::show(&r.bytes),
                                    w::show_val(&f),
                                    want[k].as_ref().map(|x| w::show(&w::encoded(x))).unwrap_or_else(|| "<a protocol error>".into())
                                ),
                                di,
                            ));
                            break 'outer;
                        }
                        pos += n;
                    }
                    Parsed::NeedMore => {
                        let b = blame(k);
                        o.violate(Violation::new(
                            format!("C22/reply_missing_or_truncated/{mode}/{}", class_of(b)),
                            format!("delivery {di} request #{k} {}: {} bytes of output left: {}", w::show(&r.bytes), out.len() - pos, w::show(&out[pos..])),
                            di,
                        ));
                        break 'outer;
                    }
                    Parsed::Bad(why) => {
                        let b = blame(k);
                        let tail = &out[pos..];
                        let nl = if why.contains("bare LF") { "bare_lf" } else if why.contains("bare CR") { "bare_cr" } else { "other" };
                        o.violate(Violation::new(
                            format!("C22/reply_not_wellformed/{mode}/{}/{nl}", class_of(b)),
                            format!("delivery {di} request #{k} {}: reply bytes {} are not a RESP frame: {why}", w::show(&r.bytes), w::show(tail)),
                            di,
                        ));
                        break 'outer;
                    }
                }
            }
            if pos != out.len() {
                let b = del.iter().rev().find(|x| x.target).unwrap_or(&del[0]);
                let mode = if del.len() == 1 { "single" } else { "pipelined" };
                o.violate(Violation::new(
                    format!("C22/more_than_one_frame_per_request/{mode}/{}", class_of(b)),
                    format!("delivery {di}: {} requests, their replies end at byte {pos} but {} more bytes were written: {}", del.len(), out.len() - pos, w::show(&out[pos..])),
                    di,
                ));
                break;
            }
        }
        o.evaluations = total.max(1);
        keyparts.push(format!("{}", deliveries.iter().map(|d| d.len().to_string()).collect::<Vec<_>>().join(".")));
        o.class_key = hash_str(&keyparts.join(","));
        o.state_hash = state;
        o
    }
}

fn grid_runs() -> u64 {
    (TEMPLATES.len() * INJ.len() * WHERE.len()) as u64
}

fn nested_runs() -> u64 {
    (NESTED.len() * DEPTHS.len()) as u64
}

/// marker after a request? (derived from the event's own number so that it survives shrinking)
fn s_chance(u: u64) -> bool {
    u % 3 == 0
}

#[allow(dead_code)]
fn unused(_: &mut Rng) {}
