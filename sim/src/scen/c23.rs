//! C23 — RESP and HTTP run every supported statement like the engine does.
//!
//! Sim: every event is one probe statement (read or write; leading clause MATCH / OPTIONAL
//! MATCH / UNWIND / WITH / CALL / CREATE / MERGE / RETURN / DDL; keyword case; separators
//! space, tab, newline, CRLF, block and line comments; leading/trailing trivia; clause
//! pipelines `<reads> <write> WITH .. <read tail | write [WITH .. read tail]>`; an optional
//! EXPLAIN / PROFILE prefix on every shape; procedure calls -- the writing solver `or.solve` and
//! reading algorithms -- with the name spelled in every namespace x mixed case).  For each
//! probe three fresh twins are built from the same setup history and the statement is sent
//! (1) to the RESP command handler (`GRAPH.QUERY`), (2) to the shipped axum router
//! (`POST /api/query`), (3) to the embedded engine: parse, plan, and the plan's `is_write`
//! decides between `QueryEngine::execute_mut` and `QueryEngine::execute`.
//! While a front end works on a request the simulator holds a read guard on the store for
//! the first polls: a request that completes under it was routed as a read; one that
//! blocks wants the write lock (then the guard is released).
//!
//! Oracle: same outcome class (rows / refusal) as the engine, same columns, same bag of
//! rows (scalar cells by value, entities by kind), same post-dump; and a request that was
//! routed as a read leaves dump and index/constraint lists unchanged.
//! For calls of the (randomised) solver the cells of its report row and the value of the solved
//! property are masked in all twins, and the engine twin falls back to the mutating executor when
//! the read executor refuses (a CALL plan never carries `is_write`).

use super::c24::{push_pipeline_tail, recase, respell_call, PREFIXES, READ_TAILS, SEPS, WRITES};
use crate::kit::core::*;
use crate::kit::dump::dump;
use crate::kit::exec::Tasks;
use crate::kit::model::*;
use crate::kit::rng::{Rng, Streams};
use crate::kit::server::Server;
use samyama::graph::{GraphStore, PropertyValue};
use samyama::protocol::resp::RespValue;
use samyama::query::executor::{QueryPlanner, RecordBatch, Value as QV};
use samyama::query::{parse_query, QueryEngine};
use serde_json::{json, Value};
use std::cell::RefCell;
use std::rc::Rc;
use std::sync::Arc;

pub struct C23;

const SETUP: &[&str] = &[
    "CREATE (a:P {k: 1, name: 'a'})-[:T {w: 1}]->(b:P {k: 2, name: 'b'})",
    "CREATE (c:P {k: 3, name: ' SET '})",
    "CREATE (q:Q {k: 1})",
    "MATCH (a:P {k: 2}), (q:Q {k: 1}) CREATE (a)-[:T {w: 2}]->(q)",
];

/// Statements whose first clause writes (or that lead into the write with UNWIND only):
/// (lead class, write class, clauses).  Every entry binds `n`.
const LEADING_WRITES: &[(&str, &str, &[&str])] = &[
    ("create", "create", &["CREATE (n:Q {k: 9})"]),
    ("create", "create", &["CREATE (n:Q {k: 9})", "SET n.z = 1"]),
    ("create", "create", &["CREATE (n:Q {k: 9})", "WITH n", "MATCH (m:P {k: 1})", "CREATE (n)-[:T]->(m)"]),
    ("create", "create", &["CREATE (n:Q {k: 9})-[:T]->(m:Q {k: 10})"]),
    ("merge", "merge", &["MERGE (n:Q {k: 9})"]),
    ("merge", "merge", &["MERGE (n:Q {k: 1})", "ON MATCH SET n.z = 2"]),
    ("merge", "merge", &["MERGE (n:Q {k: 9})", "ON CREATE SET n.z = 1"]),
    ("unwind", "create", &["UNWIND [1, 2] AS x", "CREATE (n:Q {k: x})"]),
    ("unwind", "merge", &["UNWIND [1, 2] AS x", "MERGE (n:Q {k: x})"]),
];

/// Diagnostic prefixes: none, EXPLAIN (describe only), PROFILE (execute and report).
const DIAG: &[&str] = &["", "EXPLAIN", "PROFILE"];

/// Whole statements of special interest: (lead class, write class, text).
const SPECIAL: &[(&str, &str, &str)] = &[
    ("match", "read", "MATCH (n:P) WHERE n.name = ' SET ' RETURN n.k AS k"),
    ("match", "read", "MATCH (n:P) WHERE n.name <> ' CREATE ' RETURN count(*) AS c"),
    ("match", "read", "MATCH (n:P) WHERE n.name <> ' DELETE ' RETURN n.k AS k UNION MATCH (n:Q) RETURN n.k AS k"),
    ("return", "read", "RETURN 1 AS c UNION ALL RETURN 2 AS c"),
    ("return", "read", "RETURN ' MERGE ' AS s"),
    ("show", "read", "SHOW INDEXES"),
    ("show", "read", "SHOW CONSTRAINTS"),
    ("explain", "read", "EXPLAIN MATCH (n:P) RETURN n"),
    ("match", "read", "MATCH (n:P) RETURN n.k AS k ORDER BY k SKIP 1 LIMIT 1"),
    ("match", "read", "MATCH (a:P)-[r:T]->(b) RETURN a.k AS a, r.w AS w, b.k AS b"),
    ("call", "read", "CALL db.labels() YIELD label RETURN label"),
    ("call_subquery", "read", "CALL { MATCH (n:P) RETURN n.k AS k } RETURN k"),
    ("call_subquery", "create", "CALL { CREATE (x:Q {k: 5}) RETURN x.k AS k } RETURN k"),
    ("explain", "create", "EXPLAIN CREATE (x:Q {k: 5})"),
    ("explain", "set", "EXPLAIN MATCH (n:P) SET n.z = 1"),
];

const LEAD_TRIVIA: &[&str] = &["", "", "", " ", "\n", "\t", "  \n  ", "// find things\n", "/* generated */ ", "\r\n"];
const TAIL_TRIVIA: &[&str] = &["", "", "", ";", " ", "\n", " ;\n", " // done"];
const RETURNS: &[&str] = &["", "RETURN count(*) AS c", "RETURN 1 AS one", "RETURN n", "RETURN n.k AS k"];

/// Procedure calls: (write class, clause).  The name is re-spelled per probe (namespace x case style).
/// The solver writes its solution to property `z` of the :P nodes; the other two only read.
const PROC_CALLS: &[(&str, &str)] = &[
    ("procedure", "CALL algo.or.solve({label: 'P', property: 'z', max_iterations: 2, population_size: 4})"),
    ("procedure", "CALL algo.or.solve({label: 'P', property: 'z', algorithm: 'TLBO', max_iterations: 2, population_size: 4})"),
    ("procedure", "CALL algo.or.solve({label: 'P', property: 'z', max_iterations: 2, population_size: 4})"),
    ("read", "CALL algo.wcc('P', 'T') YIELD node, componentId"),
    ("read", "CALL algo.pageRank('P', 'T') YIELD node, score"),
];
/// Property the solver is pointed at: its value is a random draw, so it is masked in every twin.
const SOLVED_PROP: &str = "z";

fn gen_probe(r: &mut Rng) -> Value {
    let sep = r.weighted(&[8, 5, 2, 1, 1, 1, 1]) as u64;
    let case_mode = r.weighted(&[5, 4, 1, 1]) as u64;
    let lead = r.below(LEAD_TRIVIA.len() as u64);
    let tail = r.below(TAIL_TRIVIA.len() as u64);
    let mut diag = r.weighted(&[7, 1, 2]) as u64;
    let (lclass, wclass, clauses): (String, String, Vec<String>) = match r.weighted(&[12, 2, 4, 3, 2]) {
        0 => {
            let pi = r.usize_below(PREFIXES.len());
            let (pclass, pclauses, binds_n) = PREFIXES[pi];
            let mut clauses: Vec<String> = pclauses.iter().map(|s| s.to_string()).collect();
            let mut wclass = "read".to_string();
            let mut w1 = "read";
            if r.chance(3, 4) {
                let mut wi = r.usize_below(WRITES.len());
                for _ in 0..6 {
                    let ok_var = !WRITES[wi].2 || binds_n;
                    let excluded = WRITES[wi].0 == "procedure";
                    if ok_var && !excluded {
                        break;
                    }
                    wi = r.usize_below(WRITES.len());
                }
                if WRITES[wi].0 == "procedure" || (WRITES[wi].2 && !binds_n) {
                    wi = 9; // CREATE (:Q {k: 7})
                }
                w1 = WRITES[wi].0;
                wclass = w1.to_string();
                clauses.push(WRITES[wi].1.to_string());
                if w1 != "ddl" && r.chance(2, 5) {
                    wclass = push_pipeline_tail(r, &mut clauses, w1, binds_n);
                } else {
                    let mut ret = RETURNS[r.usize_below(RETURNS.len())];
                    if ret.contains('n') && ret != "RETURN count(*) AS c" && ret != "RETURN 1 AS one" && !binds_n {
                        ret = "RETURN 1 AS one";
                    }
                    if !ret.is_empty() {
                        clauses.push(ret.to_string());
                    }
                }
            } else {
                let mut t = READ_TAILS[r.usize_below(READ_TAILS.len())];
                if pclass == "none" {
                    clauses.push("MATCH (n:P)".to_string());
                } else if !binds_n && (t == "RETURN n" || t.starts_with("RETURN n.k")) {
                    t = "RETURN 1 AS one";
                }
                clauses.push(t.to_string());
            }
            let lclass = if pclass == "none" { if w1 == "read" { "match" } else { w1 } } else { pclass };
            (lclass.to_string(), wclass, clauses)
        }
        1 => {
            // DDL on its own
            let ddl: Vec<&(&str, &str, bool)> = WRITES.iter().filter(|w| w.0 == "ddl").collect();
            let d = ddl[r.usize_below(ddl.len())];
            ("ddl".to_string(), "ddl".to_string(), vec![d.1.to_string()])
        }
        2 => {
            let (l, c, clauses) = LEADING_WRITES[r.usize_below(LEADING_WRITES.len())];
            let mut cl: Vec<String> = clauses.iter().map(|s| s.to_string()).collect();
            let mut wclass = c.to_string();
            if r.chance(2, 5) {
                wclass = push_pipeline_tail(r, &mut cl, c, true);
            } else {
                let ret = RETURNS[r.usize_below(RETURNS.len())];
                if !ret.is_empty() {
                    cl.push(ret.to_string());
                }
            }
            (l.to_string(), wclass, cl)
        }
        4 => {
            // a procedure call, its name spelled in a PRNG-chosen namespace x case style; alone, or behind a read prefix
            let (w, call) = PROC_CALLS[r.usize_below(PROC_CALLS.len())];
            let (call, spelling) = respell_call(r, call);
            let mut clauses: Vec<String> = Vec::new();
            let mut lclass = "call_proc";
            if r.chance(1, 5) {
                let (pclass, pclauses, _) = PREFIXES[r.usize_below(PREFIXES.len())];
                if pclass != "none" && pclass != "return_union" {
                    clauses = pclauses.iter().map(|s| s.to_string()).collect();
                    lclass = pclass;
                }
            }
            clauses.push(call);
            if w == "read" {
                clauses.push(["RETURN count(*) AS c", "RETURN 1 AS one"][r.usize_below(2)].to_string());
            } else if r.chance(1, 4) {
                clauses.push("RETURN 1 AS one".to_string());
            }
            let wclass = match (w, spelling) {
                ("procedure", "plain") => "procedure".to_string(),
                ("procedure", sp) => format!("procedure_{sp}"),
                (_, "plain") => "read".to_string(),
                (_, sp) => format!("read_procedure_{sp}"),
            };
            (lclass.to_string(), wclass, clauses)
        }
        _ => {
            let (l, w, t) = SPECIAL[r.usize_below(SPECIAL.len())];
            if l == "explain" {
                diag = 0; // already prefixed
            }
            (l.to_string(), w.to_string(), vec![t.to_string()])
        }
    };
    json!({"op":"probe","clauses":clauses,"diag":diag,"sep":sep,"case":case_mode,"lead_trivia":lead,"tail_trivia":tail,"lead":lclass,"write":wclass})
}

fn diag_of(ev: &Value) -> &'static str {
    DIAG[(u(ev, "diag") as usize) % DIAG.len()]
}

fn probe_text(ev: &Value) -> String {
    let mut clauses: Vec<String> = ev["clauses"].as_array().map(|a| a.iter().map(|c| c.as_str().unwrap_or("").to_string()).collect()).unwrap_or_default();
    let sep = SEPS[(u(ev, "sep") as usize) % SEPS.len()];
    let lead = LEAD_TRIVIA[(u(ev, "lead_trivia") as usize) % LEAD_TRIVIA.len()];
    let tail = TAIL_TRIVIA[(u(ev, "tail_trivia") as usize) % TAIL_TRIVIA.len()];
    if !diag_of(ev).is_empty() {
        // the prefix is one more keyword: same separator, same case style as the rest
        clauses.insert(0, diag_of(ev).to_string());
    }
    format!("{lead}{}{tail}", recase(&clauses.join(sep), u(ev, "case") % 4))
}

fn trivia_class(ev: &Value) -> &'static str {
    match LEAD_TRIVIA[(u(ev, "lead_trivia") as usize) % LEAD_TRIVIA.len()] {
        "" | " " => "plain",
        x if x.contains("//") || x.contains("/*") => "leading_comment",
        _ => "leading_whitespace",
    }
}

// ------------------------------------------------------------------ outcomes

#[derive(Clone, Debug, PartialEq, Eq)]
enum Out {
    Rows { columns: Vec<String>, rows: Vec<String> },
    Refused(String),
}

fn pv_cell(p: &PropertyValue) -> String {
    match p {
        PropertyValue::Integer(i) => i.to_string(),
        PropertyValue::String(s) => s.clone(),
        PropertyValue::Boolean(b) => b.to_string(),
        PropertyValue::Null => "NULL".into(),
        _ => "<complex>".into(),
    }
}

fn engine_cell(v: &QV) -> String {
    match v {
        QV::Property(p) => pv_cell(p),
        QV::Null => "NULL".into(),
        QV::Node(..) | QV::NodeRef(..) => "<node>".into(),
        QV::Edge(..) | QV::EdgeRef(..) => "<edge>".into(),
        QV::Path { .. } => "<path>".into(),
        #[allow(unreachable_patterns)]
        _ => "<complex>".into(),
    }
}

fn engine_out(r: Result<RecordBatch, String>) -> Out {
    match r {
        Err(e) => Out::Refused(e),
        Ok(b) => {
            let mut rows: Vec<String> = b.records.iter().map(|rec| b.columns.iter().map(|c| rec.get(c).map(engine_cell).unwrap_or_else(|| "NULL".into())).collect::<Vec<_>>().join(" | ")).collect();
            rows.sort();
            Out::Rows { columns: b.columns.clone(), rows }
        }
    }
}

fn resp_cell(v: &RespValue) -> String {
    match v {
        RespValue::Integer(i) => i.to_string(),
        RespValue::Null | RespValue::BulkString(None) => "NULL".into(),
        RespValue::BulkString(Some(b)) => {
            let s = String::from_utf8_lossy(b).to_string();
            if s.starts_with("Node(") {
                "<node>".into()
            } else if s.starts_with("Edge(") {
                "<edge>".into()
            } else if s.starts_with("Path(") {
                "<path>".into()
            } else if s == "Null" {
                // RESP renders a null *property value* with `{:?}` ("Null"); a rendering quirk, not routing
                "NULL".into()
            } else {
                s
            }
        }
        RespValue::SimpleString(s) => s.clone(),
        _ => "<complex>".into(),
    }
}

fn resp_out(v: &RespValue) -> Out {
    match v {
        RespValue::Error(e) => Out::Refused(e.clone()),
        RespValue::Array(items) if !items.is_empty() => {
            let columns: Vec<String> = match &items[0] {
                RespValue::Array(h) => h.iter().map(resp_cell).collect(),
                _ => vec!["<malformed header>".into()],
            };
            let mut rows: Vec<String> = items[1..]
                .iter()
                .map(|r| match r {
                    RespValue::Array(cells) => cells.iter().map(resp_cell).collect::<Vec<_>>().join(" | "),
                    other => format!("<malformed row {other:?}>"),
                })
                .collect();
            rows.sort();
            Out::Rows { columns, rows }
        }
        other => Out::Rows { columns: vec![format!("<unexpected reply {other:?}>")], rows: vec![] },
    }
}

fn json_cell(v: &Value) -> String {
    match v {
        Value::Null => "NULL".into(),
        Value::Bool(b) => b.to_string(),
        Value::Number(n) => n.to_string(),
        Value::String(s) => s.clone(),
        Value::Object(o) if o.contains_key("labels") => "<node>".into(),
        Value::Object(o) if o.contains_key("source") => "<edge>".into(),
        Value::Object(o) if o.contains_key("length") => "<path>".into(),
        _ => "<complex>".into(),
    }
}

fn http_out(status: u16, body: &Value) -> Out {
    if status != 200 {
        return Out::Refused(format!("{status} {}", body.get("error").and_then(|e| e.as_str()).unwrap_or("")));
    }
    let columns: Vec<String> = body.get("columns").and_then(|c| c.as_array()).map(|a| a.iter().map(|x| x.as_str().unwrap_or("?").to_string()).collect()).unwrap_or_default();
    let mut rows: Vec<String> = body
        .get("records")
        .and_then(|r| r.as_array())
        .map(|rs| rs.iter().map(|r| r.as_array().map(|cells| cells.iter().map(json_cell).collect::<Vec<_>>().join(" | ")).unwrap_or_default()).collect())
        .unwrap_or_default();
    rows.sort();
    Out::Rows { columns, rows }
}

#[derive(Clone, Debug, PartialEq, Eq)]
struct Observed {
    graph: String,
    schema: Vec<String>,
}

/// `observe` with the value of `SOLVED_PROP` replaced by a marker on every node that carries it
/// (which nodes carry it is still compared; the value is the randomised solver's draw).
fn observe_masked(g: &GraphStore, mask_solution: bool) -> Observed {
    let mut o = observe(g);
    if mask_solution {
        let mut d = dump(g);
        for n in d.nodes.values_mut() {
            if let Some(v) = n.props.get_mut(SOLVED_PROP) {
                *v = "<solution>".to_string();
            }
        }
        o.graph = d.canonical();
    }
    o
}

/// The solver's report row (fitness, history, ..) is a function of its random draws: columns and
/// row count are compared, the cells are not.
fn mask_solver_report(out: Out, solver: bool) -> Out {
    match out {
        Out::Rows { columns, rows } if solver => Out::Rows { columns, rows: rows.iter().map(|_| "<solver report>".to_string()).collect() },
        other => other,
    }
}

fn observe(g: &GraphStore) -> Observed {
    let mut schema: Vec<String> = g.property_index.list_indexes().into_iter().map(|(l, p)| format!("index {}.{}", l.as_str(), p)).collect();
    schema.extend(g.property_index.list_constraints().into_iter().map(|(l, p)| format!("constraint {}.{}", l.as_str(), p)));
    schema.extend(g.vector_index.list_indices().into_iter().map(|k| format!("vector {}.{}", k.label, k.property_key)));
    schema.extend(g.hierarchy_index.list().into_iter().map(|h| format!("hierarchy {}", h.name)));
    schema.sort();
    Observed { graph: dump(g).canonical(), schema }
}

/// Drive a front-end request while holding a read guard on the store for the first polls.
/// Returns (output, wanted_write_lock).
fn drive<'a, T: 'a>(store: &Arc<tokio::sync::RwLock<GraphStore>>, fut: impl std::future::Future<Output = T> + 'a) -> (T, bool) {
    let slot: Rc<RefCell<Option<T>>> = Rc::new(RefCell::new(None));
    let slot2 = slot.clone();
    let mut tasks: Tasks<'a> = Tasks::new();
    let id = tasks.spawn("request", async move {
        let v = fut.await;
        *slot2.borrow_mut() = Some(v);
    });
    let guard = crate::kit::exec::block_on(store.clone().read_owned());
    let mut blocked = true;
    for _ in 0..64 {
        if tasks.poll(id) {
            blocked = false;
            break;
        }
    }
    drop(guard);
    if blocked {
        let mut n = 0u64;
        while !tasks.poll(id) {
            n += 1;
            if n > 100_000 {
                panic!("harness: front-end request never completed");
            }
        }
    }
    drop(tasks);
    let out = slot.borrow_mut().take().expect("request output");
    (out, blocked)
}

fn setup_server() -> Server {
    let srv = Server::start(None).expect("ephemeral server");
    {
        let engine = QueryEngine::new();
        let mut g = crate::kit::exec::block_on(srv.store.write());
        for s in SETUP {
            engine.execute_mut(s, &mut g, "default").unwrap_or_else(|e| panic!("harness: setup {s:?}: {e}"));
        }
    }
    srv
}

fn class_of(a: &Out, eng: &Out) -> Option<&'static str> {
    match (a, eng) {
        (Out::Refused(_), Out::Refused(_)) => None,
        (Out::Refused(_), Out::Rows { .. }) => Some("refused_but_engine_runs"),
        (Out::Rows { .. }, Out::Refused(_)) => Some("runs_but_engine_refuses"),
        (Out::Rows { columns: c1, rows: r1 }, Out::Rows { columns: c2, rows: r2 }) => {
            if c1 != c2 {
                Some("columns_differ")
            } else if r1.len() != r2.len() {
                Some("row_count_differs")
            } else if r1 != r2 {
                Some("cells_differ")
            } else {
                None
            }
        }
    }
}

/// `PROFILE <read>` answers one `plan` cell per branch whose text contains measured wall-clock
/// times: not comparable between twins (and not reproducible), so only columns and row
/// count are kept.  EXPLAIN output (no timings) is compared verbatim.
fn mask_profile_report(out: Out, profiled: bool) -> Out {
    match out {
        Out::Rows { columns, rows } if profiled && columns.len() == 1 && columns[0] == "plan" => Out::Rows { columns, rows: rows.iter().map(|_| "<profile report>".to_string()).collect() },
        other => other,
    }
}

impl Scenario for C23 {
    fn id(&self) -> &'static str {
        "C23"
    }
    fn runs(&self, tier: Tier) -> u64 {
        match tier {
            Tier::Quick => 1_500,
            Tier::Thorough => 60_000,
        }
    }
    fn rule(&self) -> &'static str {
        "a run = 1-6 probe statements; a probe is (a) one of 15 read prefixes (MATCH, OPTIONAL MATCH, MATCH..WITH, UNWIND, WITH, CALL..YIELD, RETURN..UNION ALL, none) + one of 24 write/DDL clauses (3/4) or a read tail (1/4) + optional RETURN, (b) a DDL statement alone, (c) a statement whose first clause writes (CREATE.., CREATE..WITH..MATCH..CREATE, MERGE.. ON CREATE/ON MATCH, UNWIND..CREATE/MERGE), (d) one of 15 special statements (write keyword inside a string literal, UNION, SHOW, EXPLAIN, SKIP/LIMIT), or (e) a procedure call (the writing solver or.solve, or the reading wcc / pageRank) whose name is spelled with one of 5 namespaces (none, algo., samyama., gds., the unknown Algo.) x 6 case styles (or.solve, Or.Solve, OR.SOLVE, or.Solve, oR.sOLVE, or.solvE), alone or (1/5) behind a read prefix, with or without RETURN; in 2/5 of the (a)/(c) write statements the write clause is continued as a clause pipeline: WITH (6 forms, carrying n or dropping it) + a read tail (RETURN forms, MATCH/OPTIONAL MATCH/UNWIND..RETURN: every write precedes the last WITH), or + a second write clause [+ RETURN] (writes on both sides of the WITH), or + a second write + WITH + read tail; 3/10 of all probes carry an EXPLAIN (1/10) or PROFILE (2/10) prefix; clauses (and the prefix) joined by one of 7 separators (space, newline, tab, double space, block comment, line comment, CRLF), keywords in one of 4 case styles, with leading trivia (none, space, newline, tab, line comment, block comment, CRLF) and trailing trivia (none, ';', space, newline, line comment). Each probe runs on three fresh twins built from the same 4-statement setup. Non-trivial = the run has a write probe whose leading clause is not CREATE/MERGE or whose text has non-plain case/separator/trivia/prefix. Distinct = hash of the probe texts."
    }
    fn real_components(&self) -> Vec<&'static str> {
        vec![
            "samyama::protocol::command::CommandHandler::handle_command (GRAPH.QUERY routing + reply formatting)",
            "samyama::http::server::HttpServer::router -> POST /api/query (query_handler routing + JSON body), all layers",
            "samyama::query::{parse_query, QueryPlanner::plan (is_write), QueryEngine::{execute, execute_mut}}",
            "tokio::sync::RwLock<GraphStore> (the simulator observes which lock a request takes)",
        ]
    }
    fn stub_components(&self) -> Vec<&'static str> {
        vec!["server wiring of src/main.rs mirrored in kit/server.rs (ephemeral: no persistence, async-indexing store as in main.rs)", "sockets / framing: requests are handed to handle_command and Router::oneshot directly"]
    }
    fn assumptions(&self) -> Vec<&'static str> {
        vec![
            "'the engine can execute it' = parse_query + QueryPlanner::plan succeed and the executor chosen by the plan's is_write flag returns rows",
            "cells are compared by value for integers, strings, booleans and null (the three renderings are lossless for these), by kind for nodes / relationships / paths; floats, lists and maps are not generated in RETURN items",
            "row order is not compared (bag), error texts are not compared",
            "the report of PROFILE <read statement> contains measured times: only its columns and row count are compared; EXPLAIN output is compared verbatim",
            "the solver procedure (or.solve) is randomised, so twins legitimately differ in what it computes: for probes that call it the cells of its report row and the value of the solved property are masked in all three twins (columns, row count, which nodes carry the property and everything else are compared)",
            "the plan of a CALL statement never carries is_write, so for solver-procedure probes 'the engine can execute it' falls back to the mutating executor (the one that runs every statement) when the read executor refuses",
            "no property index exists in the setup history: the ephemeral server of main.rs never runs the indexer, which is outside this property",
        ]
    }
    fn required_probes(&self, _tier: Tier) -> Vec<&'static str> {
        vec![
            "engine_ran_write",
            "engine_ran_read",
            "engine_refused",
            "resp_took_write_lock",
            "http_took_write_lock",
            "resp_routed_read",
            "http_routed_read",
            "all_three_agree_on_write",
            "pipeline_write_before_last_with_ran",
            "pipeline_write_after_with_ran",
            "profile_write_ran",
            "profile_read_ran",
            "explain_of_write_changed_nothing",
            "explain_of_read",
            "write_procedure_ran",
            "write_procedure_mixed_case_ran",
            "read_procedure_ran",
        ]
    }
    fn generate(&self, s: &mut Streams, _run_index: u64, _tier: Tier) -> Case {
        let mut case = Case::new("C23");
        let n = 1 + s.knobs.short_len(0, 5);
        for _ in 0..n {
            case.events.push(gen_probe(&mut s.workload));
        }
        case
    }
    fn shrink_event(&self, ev: &Value) -> Vec<Value> {
        let mut out = Vec::new();
        if op(ev) == "probe" {
            for k in ["lead_trivia", "tail_trivia", "sep", "case", "diag"] {
                if u(ev, k) != 0 {
                    let mut e = ev.clone();
                    e[k] = json!(0);
                    out.push(e);
                }
            }
        }
        out
    }
    fn execute(&self, case: &Case) -> Outcome {
        let mut o = Outcome::new();
        let mut keys: Vec<String> = Vec::new();
        let mut hash_parts: Vec<String> = Vec::new();
        // what the set-up history alone leaves behind (the same for every probe of every run)
        let base_obs = {
            let s0 = setup_server();
            let obs = s0.with_store(observe);
            let _ = s0.shutdown();
            obs
        };
        for (step, ev) in case.events.iter().enumerate() {
            if op(ev) != "probe" {
                continue;
            }
            let q = probe_text(ev);
            let diag = diag_of(ev);
            let profiled = diag == "PROFILE";
            let explained = diag == "EXPLAIN" || s(ev, "lead") == "explain";
            let lead = if diag.is_empty() { s(ev, "lead").to_string() } else { format!("{}_{}", diag.to_ascii_lowercase(), s(ev, "lead")) };
            let wclass = s(ev, "write").to_string();
            let solver = wclass.starts_with("procedure");
            let read_proc = wclass.starts_with("read_procedure");
            let is_read = wclass == "read" || read_proc;
            let trivia = trivia_class(ev).to_string();
            keys.push(q.clone());
            o.steps += 3;
            if !is_read && ((lead != "create" && lead != "merge" && lead != "ddl") || trivia != "plain" || u(ev, "case") % 4 != 0 || u(ev, "sep") % 7 != 0) {
                o.nontrivial = true;
            }
            // ---- twin 3: the embedded engine decides by its own plan
            let eng_srv = setup_server();
            let engine = QueryEngine::new();
            let (eng_out, eng_write, eng_obs) = {
                let mut g = crate::kit::exec::block_on(eng_srv.store.write());
                let routed: Result<bool, String> = match parse_query(&q) {
                    Err(e) => Err(format!("parse: {e}")),
                    Ok(ast) => match QueryPlanner::new().plan(&ast, &g) {
                        Ok(p) => Ok(p.is_write),
                        // a statement the planner refuses is still handed to the executors below: EXPLAIN,
                        // UNION and CALL {} are resolved before planning there
                        Err(_) => Ok(false),
                    },
                };
                let (out, w) = match routed {
                    Err(e) => (Out::Refused(e), false),
                    Ok(true) => (engine_out(engine.execute_mut(&q, &mut g, "default").map_err(|e| e.to_string())), true),
                    Ok(false) => {
                        let out = engine_out(engine.execute(&q, &g).map_err(|e| e.to_string()));
                        if solver && matches!(out, Out::Refused(_)) {
                            // The plan of a CALL never says is_write, whatever the procedure does: for a
                            // procedure call "the engine can execute it" is decided by the executor that can
                            // run every statement.  (The refusing read executor left the twin untouched.)
                            match engine_out(engine.execute_mut(&q, &mut g, "default").map_err(|e| e.to_string())) {
                                rows @ Out::Rows { .. } => (rows, true),
                                Out::Refused(_) => (out, false),
                            }
                        } else {
                            (out, false)
                        }
                    }
                };
                (mask_solver_report(mask_profile_report(out, profiled), solver), w, observe_masked(&g, solver))
            };
            match (&eng_out, eng_write) {
                (Out::Refused(_), _) => o.probe("engine_refused"),
                (_, true) => o.probe("engine_ran_write"),
                (_, false) => o.probe("engine_ran_read"),
            }
            if matches!(eng_out, Out::Rows { .. }) {
                let changed = eng_obs != base_obs;
                if eng_write && !explained && wclass.ends_with("_with_read") {
                    o.probe("pipeline_write_before_last_with_ran");
                } else if eng_write && !explained && wclass.contains("_with_") {
                    o.probe("pipeline_write_after_with_ran");
                }
                if profiled && eng_write && changed {
                    o.probe("profile_write_ran");
                } else if profiled && !eng_write {
                    o.probe("profile_read_ran");
                }
                if explained && !is_read && !changed {
                    o.probe("explain_of_write_changed_nothing");
                } else if explained && is_read {
                    o.probe("explain_of_read");
                }
                if solver && eng_write && changed && !explained {
                    o.probe("write_procedure_ran");
                    if wclass == "procedure_mixed_case" {
                        o.probe("write_procedure_mixed_case_ran");
                    }
                } else if read_proc || (wclass == "read" && s(ev, "lead") == "call_proc") {
                    o.probe("read_procedure_ran");
                }
            }
            // ---- twin 1: RESP, twin 2: HTTP
            let mut agree = true;
            for front in ["resp", "http"] {
                let srv = setup_server();
                let (out, took_write) = if front == "resp" {
                    let cmd = RespValue::Array(vec![
                        RespValue::BulkString(Some(b"GRAPH.QUERY".to_vec())),
                        RespValue::BulkString(Some(b"default".to_vec())),
                        RespValue::BulkString(Some(q.as_bytes().to_vec())),
                    ]);
                    let (reply, w) = drive(&srv.store, srv.handler.handle_command(&cmd, &srv.store));
                    (mask_solver_report(mask_profile_report(resp_out(&reply), profiled), solver), w)
                } else {
                    use axum::body::Body;
                    use http_body_util::BodyExt;
                    use tower::ServiceExt;
                    let req = axum::http::Request::builder().method("POST").uri("/api/query").header("content-type", "application/json").body(Body::from(json!({ "query": q }).to_string())).unwrap();
                    let app = srv.router.clone();
                    let ((status, body), w) = drive(&srv.store, async move {
                        let resp = app.oneshot(req).await.expect("infallible");
                        let status = resp.status().as_u16();
                        let bytes = resp.into_body().collect().await.expect("body").to_bytes();
                        (status, serde_json::from_slice::<Value>(&bytes).unwrap_or(Value::Null))
                    });
                    (mask_solver_report(mask_profile_report(http_out(status, &body), profiled), solver), w)
                };
                o.probe(&format!("{front}_{}", if took_write { "took_write_lock" } else { "routed_read" }));
                let obs = srv.with_store(|g| observe_masked(g, solver));
                hash_parts.push(format!("{front}:{out:?}:{took_write}"));
                let mut fail = |clause: &str, detail: String| {
                    o.violate(Violation::new(
                        format!("C23/{front}/{clause}/{lead}/{wclass}"),
                        format!("statement {q:?} (leading trivia: {trivia}): {detail}"),
                        step,
                    ));
                };
                let mut bad = false;
                if !took_write && obs != base_obs {
                    fail("read_route_modified_graph", format!("the request never asked for the write lock, yet the graph/schema changed: before {:?} after {:?}", base_obs, obs));
                    bad = true;
                }
                if let Some(c) = class_of(&out, &eng_out) {
                    fail(c, format!("{front} answered {out:?}; the engine (is_write={eng_write}) answered {eng_out:?}"));
                    bad = true;
                } else if obs != eng_obs && !(matches!(out, Out::Refused(_)) && matches!(eng_out, Out::Refused(_))) {
                    // (when both refuse, what a refused statement leaves behind is C05's subject: the
                    // engine's failing write is not atomic, a front end that refuses up front changes nothing)
                    fail("effect_differs", format!("{front} left {:?}; the engine left {:?}", obs, eng_obs));
                    bad = true;
                }
                if bad {
                    agree = false;
                }
                let _ = srv.shutdown();
            }
            if agree && eng_write && matches!(eng_out, Out::Rows { .. }) {
                o.probe("all_three_agree_on_write");
            }
            let _ = eng_srv.shutdown();
            hash_parts.push(format!("eng:{eng_out:?}"));
        }
        o.class_key = hash_str(&keys.join("\n"));
        o.state_hash = hash_str(&hash_parts.join("\n"));
        o
    }
}
