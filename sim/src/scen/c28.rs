//! C28 — hierarchy (OEH) index answers equal the brute-force poset answers.
//!
//! Sim: one history = build a DAG over a covering relation (all labelled DAGs <= 5 nodes
//! enumerated over run indices, random trees / forests, near-trees, low-width and dense
//! small DAGs) with integer measures and a small fact table; `CREATE HIERARCHY INDEX` at a
//! chosen point; then measure updates (Cypher SET / REMOVE, `set_node_property`,
//! `set_column_property`, `remove_node_property`), covering-relation writes (create / delete
//! relationships of a covered type, delete a member node; API and Cypher), `REBUILD`,
//! `DROP`+`CREATE`, and hierarchy queries interleaved in PRNG-chosen order.  The same
//! history minus the index DDL is applied to a twin store.  In a quarter of the runs a SECOND
//! hierarchy index (another name, sorted before or after the first; its own measure / aggregates
//! / label restriction; mostly the same covering relation, sometimes another orientation or type
//! set) is declared over the same stored relationship type; REBUILD / DROP+CREATE events then
//! address one of the two, so queries are planned while both, one or none of them is fresh.
//!
//! Oracle (after every step): while the index is usable, every `OehIndex` answer
//! (membership, subsumption, descendant set / count, LCA set, sum/count/min/max roll-up) of
//! the manager's index *and* of side indexes built with every forced encoding (nested-set
//! when the poset is a forest, near-tree, chain) that receive the same `update_measure`
//! calls equals brute force on the model DAG; after a covering write the entry must be
//! unusable and no plan may contain a hierarchy operator until REBUILD; a query whose plan
//! contains a hierarchy operator returns the rows of the same query on the twin store
//! (variable-length shapes) / of brute force on the model poset (subsumes() shapes).  With two
//! indexes every clause is evaluated per index: after a write each index whose covering relation
//! contains the written type must be unusable; the index a plan names (`… via <name>`) must be
//! fresh, and the brute-force order is the one of that index's declaration.

use crate::kit::core::*;
use crate::kit::model::*;
use crate::kit::rng::{Rng, Streams};
use samyama::graph::{EdgeId, EdgeType, GraphStore, Label, NodeId, PropertyMap, PropertyValue};
use samyama::index::hierarchy::manager::read_measure;
use samyama::index::hierarchy::{Encoding, MeasureSpec, OehIndex, Poset, RollupOp, RollupValue};
use samyama::query::executor::record::{RecordBatch, Value as QV};
use samyama::query::QueryEngine;
use serde_json::{json, Value};
use std::collections::{BTreeMap, BTreeSet};
use std::panic::{catch_unwind, AssertUnwindSafe};

pub struct C28;

const N_SMALL: u64 = 1 + 2 + 8 + 64 + 1024;
/// at most this many hierarchy indexes are declared side by side
const MAX_IX: usize = 2;
/// names of the second index: before and after the first one's name ("h") in the manager's name order
const SECOND_NAMES: [&str; 4] = ["a", "z", "h2", "B"];
const OPS: [RollupOp; 4] = [RollupOp::Sum, RollupOp::Count, RollupOp::Min, RollupOp::Max];

#[derive(Clone, Debug)]
struct MNode {
    label: &'static str,
    code: i64,
    m: Option<i64>,
    colonly: bool,
    fact: bool,
    q: i64,
    /// measure event since the last (re)build of index i: 0 none, 1 set, 2 removed
    mev: [u8; MAX_IX],
}

#[derive(Default)]
struct Model {
    nodes: BTreeMap<u64, MNode>,
    /// edge id -> (stored source, stored target, type)
    edges: BTreeMap<u64, (u64, u64, &'static str)>,
    next_code: i64,
}

#[derive(Clone, Debug)]
struct Cfg {
    name: String,
    reverse: bool,
    multi: bool,
    measure: bool,
    mlabel: bool,
    ops: Vec<RollupOp>,
}

impl Cfg {
    fn ops_of(bits: u64) -> Vec<RollupOp> {
        let mut ops: Vec<RollupOp> = OPS.iter().enumerate().filter(|(i, _)| bits & (1 << i) != 0).map(|(_, o)| *o).collect();
        if ops.is_empty() {
            ops.push(RollupOp::Sum);
        }
        ops
    }
    fn from(case: &Case) -> Cfg {
        Cfg { name: "h".to_string(), reverse: case.knob_bool("reverse", false), multi: case.knob_bool("multi", false), measure: case.knob_bool("measure", true), mlabel: case.knob_bool("mlabel", false), ops: Cfg::ops_of(case.knob_u64("ops", 15)) }
    }
    /// the second index of the run (knob `i2`), declared over the same stored relationship type `T`
    fn second(case: &Case) -> Option<Cfg> {
        if !case.knob_bool("i2", false) {
            return None;
        }
        let measure = case.knob_bool("i2_measure", true);
        Some(Cfg {
            name: SECOND_NAMES[case.knob_u64("i2_name", 0) as usize % SECOND_NAMES.len()].to_string(),
            reverse: case.knob_bool("i2_reverse", false),
            multi: case.knob_bool("i2_multi", false),
            measure,
            mlabel: measure && case.knob_bool("i2_mlabel", false),
            ops: Cfg::ops_of(case.knob_u64("i2_ops", 15)),
        })
    }
    fn covered(&self, ty: &str) -> bool {
        ty == "T" || (self.multi && ty == "U")
    }
    fn types(&self) -> Vec<EdgeType> {
        if self.multi {
            vec![EdgeType::new("T"), EdgeType::new("U")]
        } else {
            vec![EdgeType::new("T")]
        }
    }
    fn tag(&self) -> String {
        let mut t = Vec::new();
        if self.reverse {
            t.push("reverse");
        }
        if self.multi {
            t.push("multitype");
        }
        if self.measure && self.mlabel {
            t.push("labelled_measure");
        }
        if t.is_empty() {
            "plain".to_string()
        } else {
            t.join("+")
        }
    }
    fn ddl(&self) -> String {
        let ty = if self.multi { "T|U" } else { "T" };
        let rel = if self.reverse { format!("()<-[:{ty}]-()") } else { format!("()-[:{ty}]->()") };
        let mut s = format!("CREATE HIERARCHY INDEX {} ON {rel}", self.name);
        if self.measure {
            s.push_str(if self.mlabel { " MEASURE H.m" } else { " MEASURE m" });
            s.push_str(" AGGREGATE ");
            s.push_str(&self.ops.iter().map(|o| o.name()).collect::<Vec<_>>().join(", "));
        }
        s
    }
}

struct Truth {
    nodes: BTreeSet<u64>,
    anc: BTreeMap<u64, BTreeSet<u64>>,
    desc: BTreeMap<u64, BTreeSet<u64>>,
    forest: bool,
}

impl Model {
    fn hier(&self) -> Vec<u64> {
        self.nodes.iter().filter(|(_, n)| !n.fact).map(|(i, _)| *i).collect()
    }
    fn facts(&self) -> Vec<u64> {
        self.nodes.iter().filter(|(_, n)| n.fact).map(|(i, _)| *i).collect()
    }
    /// (child, parent) pairs of the declared covering relation
    fn pairs(&self, cfg: &Cfg) -> BTreeSet<(u64, u64)> {
        self.edges.values().filter(|(_, _, t)| cfg.covered(t)).map(|(s, d, _)| if cfg.reverse { (*d, *s) } else { (*s, *d) }).collect()
    }
    /// would a new covering pair child->parent close a cycle (over T and U together)?
    fn would_cycle(&self, reverse: bool, child: u64, parent: u64) -> bool {
        if child == parent {
            return true;
        }
        // is `child` an ancestor of `parent` already?
        let mut up: BTreeMap<u64, Vec<u64>> = BTreeMap::new();
        for (s, d, t) in self.edges.values() {
            if *t == "T" || *t == "U" {
                let (c, p) = if reverse { (*d, *s) } else { (*s, *d) };
                up.entry(c).or_default().push(p);
            }
        }
        let mut seen = BTreeSet::new();
        let mut st = vec![parent];
        while let Some(x) = st.pop() {
            if x == child {
                return true;
            }
            if !seen.insert(x) {
                continue;
            }
            if let Some(ps) = up.get(&x) {
                st.extend(ps.iter().cloned());
            }
        }
        false
    }
    fn truth(&self, cfg: &Cfg) -> Truth {
        let pairs = self.pairs(cfg);
        let mut nodes = BTreeSet::new();
        let mut up: BTreeMap<u64, Vec<u64>> = BTreeMap::new();
        for (c, p) in &pairs {
            nodes.insert(*c);
            nodes.insert(*p);
            up.entry(*c).or_default().push(*p);
        }
        let forest = up.values().all(|v| v.len() <= 1);
        let mut anc: BTreeMap<u64, BTreeSet<u64>> = BTreeMap::new();
        let mut desc: BTreeMap<u64, BTreeSet<u64>> = nodes.iter().map(|n| (*n, BTreeSet::new())).collect();
        for x in &nodes {
            let mut seen = BTreeSet::new();
            let mut st = vec![*x];
            while let Some(y) = st.pop() {
                if !seen.insert(y) {
                    continue;
                }
                if let Some(ps) = up.get(&y) {
                    st.extend(ps.iter().cloned());
                }
            }
            for a in &seen {
                desc.get_mut(a).unwrap().insert(*x);
            }
            anc.insert(*x, seen);
        }
        Truth { nodes, anc, desc, forest }
    }
    /// nodes d with a stored path d -[:ty*0..]-> r
    fn stored_reach_to(&self, r: u64, ty: &str, min: usize, max: Option<usize>) -> BTreeSet<u64> {
        // BFS by exact hop count up to the bound (graph is acyclic, so paths are bounded by n)
        let mut into: BTreeMap<u64, Vec<u64>> = BTreeMap::new();
        for (s, d, t) in self.edges.values() {
            if *t == ty {
                into.entry(*d).or_default().push(*s);
            }
        }
        let limit = max.unwrap_or(self.nodes.len() + 1);
        let mut out = BTreeSet::new();
        let mut level: BTreeSet<u64> = [r].into_iter().collect();
        let mut hops = 0usize;
        loop {
            if hops >= min {
                out.extend(level.iter().cloned());
            }
            if hops >= limit || level.is_empty() {
                break;
            }
            let mut next = BTreeSet::new();
            for x in &level {
                if let Some(v) = into.get(x) {
                    next.extend(v.iter().cloned());
                }
            }
            level = next;
            hops += 1;
        }
        out
    }
    /// the measure the declared index should see on a node
    fn idx_measure(&self, cfg: &Cfg, n: u64) -> Option<i64> {
        let node = self.nodes.get(&n)?;
        if cfg.mlabel && node.label != "H" {
            return None;
        }
        node.m
    }
    fn mstate<'a>(&self, set: impl Iterator<Item = &'a u64>, ix: usize) -> &'static str {
        let mut st = 0u8;
        for n in set {
            st = st.max(self.nodes.get(n).map(|x| x.mev[ix % MAX_IX]).unwrap_or(0));
        }
        match st {
            0 => "measures_as_built",
            1 => "after_measure_set",
            _ => "after_measure_removal",
        }
    }
}

fn pick(list: &[u64], i: u64) -> Option<u64> {
    if list.is_empty() {
        None
    } else {
        Some(list[(i as usize) % list.len()])
    }
}

fn cell(v: Option<&QV>) -> String {
    match v {
        None => "<unbound>".into(),
        Some(QV::Node(id, _)) | Some(QV::NodeRef(id)) => format!("N{}", id.as_u64()),
        Some(QV::Property(p)) => pv_canon(p),
        Some(QV::Null) => "N".into(),
        Some(other) => format!("{other:?}"),
    }
}

/// (columns, sorted rows)
type Res = Result<(Vec<String>, Vec<String>), String>;

fn canon_batch(b: &RecordBatch) -> (Vec<String>, Vec<String>) {
    let mut rows: Vec<String> = b.records.iter().map(|r| b.columns.iter().map(|c| cell(r.get(c))).collect::<Vec<_>>().join("|")).collect();
    rows.sort();
    (b.columns.clone(), rows)
}

fn run_read(engine: &QueryEngine, g: &GraphStore, q: &str) -> Result<Res, String> {
    catch_unwind(AssertUnwindSafe(|| engine.execute(q, g).map(|b| canon_batch(&b)).map_err(|e| e.to_string()))).map_err(|p| panic_text(p))
}

fn run_write(engine: &QueryEngine, g: &mut GraphStore, q: &str) -> Result<Res, String> {
    catch_unwind(AssertUnwindSafe(|| engine.execute_mut(q, g, "default").map(|b| canon_batch(&b)).map_err(|e| e.to_string()))).map_err(|p| panic_text(p))
}

fn panic_text(p: Box<dyn std::any::Any + Send>) -> String {
    if let Some(s) = p.downcast_ref::<&str>() {
        s.to_string()
    } else if let Some(s) = p.downcast_ref::<String>() {
        s.clone()
    } else {
        "panic".into()
    }
}

fn plan_text(g: &GraphStore, q: &str) -> Result<String, String> {
    catch_unwind(AssertUnwindSafe(|| {
        let parsed = samyama::query::parse_query(q).map_err(|e| e.to_string())?;
        let planner = samyama::query::executor::planner::QueryPlanner::new();
        planner.plan(&parsed, g).map(|p| p.root.describe().format(0)).map_err(|e| e.to_string())
    }))
    .unwrap_or_else(|p| Err(format!("panic: {}", panic_text(p))))
}

fn rv_to_string(v: &RollupValue) -> String {
    match v {
        RollupValue::Int(i) => format!("Int({i})"),
        RollupValue::Float(f) => format!("Float({f})"),
        RollupValue::Null => "Null".into(),
    }
}

fn expected_rollup(m: &Model, cfg: &Cfg, set: &BTreeSet<u64>, op: RollupOp) -> RollupValue {
    let vals: Vec<i64> = set.iter().filter_map(|n| m.idx_measure(cfg, *n)).collect();
    match op {
        RollupOp::Count => RollupValue::Int(set.len() as i128),
        RollupOp::Sum => RollupValue::Int(vals.iter().map(|v| *v as i128).sum()),
        RollupOp::Min => vals.iter().min().map(|v| RollupValue::Int(*v as i128)).unwrap_or(RollupValue::Null),
        RollupOp::Max => vals.iter().max().map(|v| RollupValue::Int(*v as i128)).unwrap_or(RollupValue::Null),
    }
}

struct Side {
    enc: Encoding,
    idx: OehIndex,
}

fn build_sides(g: &GraphStore, cfg: &Cfg, forest: bool) -> Vec<Side> {
    let mut out = Vec::new();
    for enc in [Encoding::NestedSet, Encoding::NearTree, Encoding::Chain] {
        if enc == Encoding::NestedSet && !forest {
            continue;
        }
        let Ok(poset) = Poset::from_store(g, &cfg.types(), cfg.reverse) else { continue };
        let Ok(mut idx) = OehIndex::build_forced(poset, enc) else { continue };
        if cfg.measure {
            let spec = MeasureSpec { label: if cfg.mlabel { Some(Label::new("H")) } else { None }, property: "m".to_string() };
            let vals = read_measure(g, idx.poset(), &spec);
            idx.set_measure(vals, &cfg.ops);
        }
        out.push(Side { enc, idx });
    }
    out
}

/// Compare every answer of one index with brute force.  `who` = "manager" | "forced".
fn check_index(idx: &OehIndex, who: &str, ix: usize, m: &Model, cfg: &Cfg, t: &Truth, step: usize, salt: u64, o: &mut Outcome) -> Option<Violation> {
    let enc = idx.encoding().name();
    let sig = |what: &str, class: &str| format!("C28/api_{what}/{enc}_{who}/{class}");
    let members: Vec<u64> = t.nodes.iter().cloned().collect();
    // membership
    for n in m.nodes.keys() {
        let inside = idx.poset().idx(NodeId::new(*n)).is_some();
        if inside != t.nodes.contains(n) {
            return Some(Violation::new(sig("membership", "structure"), format!("node {n}: in index poset={inside}, has a covering relationship={}", t.nodes.contains(n)), step));
        }
    }
    let n = members.len();
    let all_pairs = n <= 70;
    let stride = if all_pairs { 1 } else { (n * n / 5000).max(1) as u64 };
    // subsumption
    let mut k = salt;
    for x in &members {
        for y in &members {
            k = k.wrapping_add(1);
            let must = t.anc[x].contains(y);
            if !all_pairs && !must && k % stride != 0 {
                continue;
            }
            match idx.subsumes_ids(NodeId::new(*x), NodeId::new(*y)) {
                Some(b) if b == must => {}
                got => return Some(Violation::new(sig("subsumes", "structure"), format!("subsumes({x},{y}) = {got:?}, brute force {must}"), step)),
            }
        }
    }
    o.probe_n("api_subsumes_checked", 1);
    // a node outside the hierarchy
    if let (Some(out_node), Some(inn)) = (m.nodes.keys().find(|k| !t.nodes.contains(k)), members.first()) {
        if let Some(b) = idx.subsumes_ids(NodeId::new(*out_node), NodeId::new(*inn)) {
            return Some(Violation::new(sig("subsumes", "outside_node"), format!("subsumes({out_node},{inn}) = Some({b}) but {out_node} is not in the hierarchy"), step));
        }
    }
    // descendants, counts, roll-ups
    let root_stride = if n <= 80 { 1 } else { n / 40 };
    for (i, y) in members.iter().enumerate() {
        if (i + salt as usize) % root_stride != 0 {
            continue;
        }
        let yi = idx.poset().idx(NodeId::new(*y)).unwrap();
        let want = &t.desc[y];
        let got: Vec<u64> = idx.descendants(yi).into_iter().map(|d| idx.poset().node_at(d).as_u64()).collect();
        let got_set: BTreeSet<u64> = got.iter().cloned().collect();
        if got.len() != got_set.len() {
            return Some(Violation::new(sig("descendants", "duplicate"), format!("descendants({y}) = {got:?} contains a node twice"), step));
        }
        if &got_set != want {
            return Some(Violation::new(sig("descendants", "structure"), format!("descendants({y}) = {got_set:?}, brute force {want:?}"), step));
        }
        let c = idx.descendant_count(yi);
        if c != want.len() {
            return Some(Violation::new(sig("descendant_count", "structure"), format!("descendant_count({y}) = {c}, brute force {}", want.len()), step));
        }
        for op in OPS {
            let got = idx.rollup_id(NodeId::new(*y), op);
            let exp = expected_rollup(m, cfg, want, op);
            match got {
                None => {
                    if op == RollupOp::Count {
                        return Some(Violation::new(sig("rollup_count", "unanswered"), format!("rollup({y}, count) = None"), step));
                    }
                }
                Some(v) => {
                    o.probe(&format!("api_rollup_{}_answered", op.name()));
                    if v != exp {
                        let class = if op == RollupOp::Count { "structure" } else { m.mstate(want.iter(), ix) };
                        return Some(Violation::new(
                            sig(&format!("rollup_{}", op.name()), class),
                            format!("rollup({y}, {}) = {}, brute force {} over {want:?}", op.name(), rv_to_string(&v), rv_to_string(&exp)),
                            step,
                        ));
                    }
                }
            }
        }
    }
    // LCA
    let pairs: Vec<(u64, u64)> = if n <= 9 {
        members.iter().flat_map(|x| members.iter().map(move |y| (*x, *y))).collect()
    } else {
        (0..40u64).map(|i| (members[((salt + i * 7) as usize) % n], members[((salt / 3 + i * 13 + 1) as usize) % n])).collect()
    };
    for (x, y) in pairs {
        let common: BTreeSet<u64> = t.anc[&x].intersection(&t.anc[&y]).cloned().collect();
        let want: BTreeSet<u64> = common.iter().filter(|c| !common.iter().any(|d| d != *c && t.anc[d].contains(c))).cloned().collect();
        match idx.lowest_common_ancestors_ids(NodeId::new(x), NodeId::new(y)) {
            Some(v) => {
                let got: BTreeSet<u64> = v.iter().map(|i| i.as_u64()).collect();
                if got.len() != v.len() || got != want {
                    return Some(Violation::new(sig("lca", "structure"), format!("lca({x},{y}) = {:?}, brute force {want:?}", v.iter().map(|i| i.as_u64()).collect::<Vec<_>>()), step));
                }
                if want.len() > 1 {
                    o.probe("api_lca_multiple");
                }
            }
            None => return Some(Violation::new(sig("lca", "unanswered"), format!("lca({x},{y}) = None for two members"), step)),
        }
    }
    None
}

/// one hierarchy index of the run
struct Ix {
    cfg: Cfg,
    declared: bool,
    /// no write to ITS covering relation since its last successful CREATE / REBUILD
    fresh: bool,
}

struct Sim {
    g: GraphStore,
    twin: GraphStore,
    engine: QueryEngine,
    engine_twin: QueryEngine,
    m: Model,
    /// [0] = the run's first index `h` (the only one in most runs), [1] = the second one (knob `i2`)
    ixs: Vec<Ix>,
    /// forced-encoding side indexes of ixs[0]
    sides: Vec<Side>,
    hash: u64,
}

impl Sim {
    fn both_write(&mut self, q: &str) -> Result<(), String> {
        let a = run_write(&self.engine, &mut self.g, q)?;
        let b = run_write(&self.engine_twin, &mut self.twin, q)?;
        match (a, b) {
            (Ok(_), Ok(_)) => Ok(()),
            (a, b) => Err(format!("write {q}: main {:?} twin {:?}", a.err(), b.err())),
        }
    }
    fn pin(&self, n: u64, var: &str) -> String {
        let node = &self.m.nodes[&n];
        format!("({var}:{} {{code: {}}})", node.label, node.code)
    }
    fn usable(&self, ix: usize) -> bool {
        self.g.hierarchy_index.get(&self.ixs[ix].cfg.name).map(|e| e.read().unwrap().usable()).unwrap_or(false)
    }
    fn any_declared(&self) -> bool {
        self.ixs.iter().any(|x| x.declared)
    }
    fn declared_count(&self) -> usize {
        self.ixs.iter().filter(|x| x.declared).count()
    }
    /// state class of index `ix` for signatures: its declaration, plus — when it is not the only
    /// declared index — its position in the manager's name order among the declared ones
    fn tag(&self, ix: usize) -> String {
        let n = self.declared_count();
        if n <= 1 || !self.ixs[ix].declared {
            return self.ixs[ix].cfg.tag();
        }
        let pos = 1 + self.ixs.iter().filter(|x| x.declared && x.cfg.name < self.ixs[ix].cfg.name).count();
        format!("{}/index_{pos}_of_{n}_by_name", self.ixs[ix].cfg.tag())
    }
    /// A write touched relationships of the types `tys`: every index whose covering relation
    /// includes one of them must be unusable now.  Returns (violation, any declared index covered it).
    fn after_write(&mut self, tys: &BTreeSet<&'static str>, kind: &str, step: usize, o: &mut Outcome) -> (Option<Violation>, bool) {
        let mut hit = Vec::new();
        for i in 0..self.ixs.len() {
            if tys.iter().any(|t| self.ixs[i].cfg.covered(t)) {
                hit.push(i);
            }
        }
        let live: Vec<usize> = hit.iter().cloned().filter(|i| self.ixs[*i].declared).collect();
        if live.len() >= 2 {
            o.probe("covering_write_two_indexes");
            if live.iter().all(|i| self.ixs[*i].fresh) {
                o.probe("covering_write_two_fresh_indexes");
            }
        }
        for i in &hit {
            self.ixs[*i].fresh = false;
            if *i == 0 {
                self.sides.clear();
            }
        }
        for i in &live {
            if self.usable(*i) {
                let v = Violation::new(format!("C28/usable_after_covering_write/{kind}/{}", self.tag(*i)), format!("index {} is still usable after {kind} (relationship types {tys:?}, its covering types {:?})", self.ixs[*i].cfg.name, self.ixs[*i].cfg.types()), step);
                return (Some(v), true);
            }
        }
        (None, !live.is_empty())
    }
    fn mix(&mut self, s: &str) {
        self.hash = hash_str(&format!("{}|{}", self.hash, s));
    }
}

fn gen_dag(r: &mut Rng, shape: u64, n: usize, small: Option<(usize, u64)>) -> Vec<Value> {
    let mut ev = Vec::new();
    let mut node = |r: &mut Rng| {
        let m = if r.chance(4, 5) { json!(r.range(-3, 20)) } else { Value::Null };
        json!({"op":"node","lab": if r.chance(3,4) {0} else {1}, "m": m, "col": r.chance(1, 5)})
    };
    let mut edges: Vec<(usize, usize)> = Vec::new();
    let n = if let Some((sn, mask)) = small {
        let mut bit = 0;
        for i in 1..sn {
            for j in 0..i {
                if mask & (1 << bit) != 0 {
                    edges.push((i, j));
                }
                bit += 1;
            }
        }
        sn
    } else {
        match shape {
            1 => {
                // tree / forest
                let style = r.below(4);
                for i in 1..n {
                    if style == 3 && r.chance(1, 6) {
                        continue; // another root
                    }
                    let p = match style {
                        0 => r.usize_below(i),
                        1 => {
                            if r.chance(3, 4) {
                                i - 1
                            } else {
                                r.usize_below(i)
                            }
                        }
                        _ => r.usize_below(i.min(3)),
                    };
                    edges.push((i, p));
                }
            }
            2 => {
                for i in 1..n {
                    edges.push((i, r.usize_below(i)));
                }
                let extra = 1 + r.usize_below((n / 20).max(1));
                for _ in 0..extra {
                    let i = 2 + r.usize_below(n - 2);
                    let j = r.usize_below(i);
                    if !edges.contains(&(i, j)) {
                        edges.push((i, j));
                    }
                }
            }
            3 => {
                let k = 2 + r.usize_below(3);
                for i in 0..n {
                    if i >= k {
                        edges.push((i, i - k));
                    }
                    if i > 0 && r.chance(1, 3) {
                        let j = r.usize_below(i);
                        if !edges.contains(&(i, j)) {
                            edges.push((i, j));
                        }
                    }
                }
            }
            _ => {
                for i in 1..n {
                    for j in 0..i {
                        if r.chance(1, 3) {
                            edges.push((i, j));
                        }
                    }
                }
            }
        }
        n
    };
    for _ in 0..n {
        ev.push(node(r));
    }
    // shuffle edge creation order a little: the index must not depend on it
    if r.chance(1, 2) {
        edges.reverse();
    }
    for (c, p) in edges {
        let ty = if r.chance(1, 6) { 1 } else { 0 };
        ev.push(json!({"op":"edge","c":c,"p":p,"ty":ty,"via":r.below(3)}));
        if r.chance(1, 25) {
            ev.push(json!({"op":"edge","c":c,"p":p,"ty":ty,"via":0})); // parallel duplicate
        }
    }
    for _ in 0..r.below(3) {
        ev.push(node(r)); // isolated nodes
    }
    for _ in 0..r.below(6) {
        ev.push(json!({"op":"fact","q":r.range(1, 9),"t":[r.below(1024), r.below(1024)],"nt":1 + r.below(2),"dir":r.below(2)}));
    }
    ev
}

fn gen_query(r: &mut Rng) -> Value {
    let root = r.below(1024);
    match r.weighted(&[10, 5, 7, 6, 4]) {
        0 => json!({"op":"query","shape":"rollup","agg":r.below(4),"rev":r.chance(1,2),"alias":r.chance(1,2),"upper":r.chance(1,4),"root":root,"ty":if r.chance(1,8) {1} else {0}}),
        1 => json!({"op":"query","shape":"desc","rev":r.chance(1,2),"root":root,"ty":if r.chance(1,8) {1} else {0}}),
        2 => json!({"op":"query","shape":"order","neg":r.chance(1,3),"out":r.below(3),"lab":r.below(3),"swap":r.chance(1,2),"root":root}),
        3 => json!({"op":"query","shape":"driven","out":r.below(3),"dir":r.below(2),"flab":r.chance(2,3),"swap":r.chance(1,2),"root":root}),
        _ => json!({"op":"query","shape":"near","len":r.below(4),"agg":r.below(5),"rev":r.chance(1,2),"root":root}),
    }
}

fn gen_mixed(r: &mut Rng) -> Vec<Value> {
    match r.weighted(&[20, 6, 7, 6, 2, 3, 2, 8, 36, 1]) {
        0 => vec![json!({"op":"set_m","n":r.below(1024),"v":r.range(-3, 20),"via":r.below(2)})],
        1 => vec![json!({"op":"rm_m","n":r.below(1024),"via":r.below(3)})],
        2 => {
            let mut v = vec![json!({"op":"edge","c":r.below(1024),"p":r.below(1024),"ty":if r.chance(1,5) {1} else {0},"via":r.below(3)})];
            if r.chance(1, 2) {
                v.push(json!({"op":"rebuild"}));
            }
            v
        }
        3 => {
            let mut v = vec![json!({"op":"del_edge","e":r.below(1024),"via":r.below(2)})];
            if r.chance(1, 2) {
                v.push(json!({"op":"rebuild"}));
            }
            v
        }
        4 => {
            let mut v = vec![json!({"op":"del_node","n":r.below(1024),"via":r.below(2)})];
            if r.chance(1, 2) {
                v.push(json!({"op":"rebuild"}));
            }
            v
        }
        5 => vec![json!({"op":"node","lab": if r.chance(3,4) {0} else {1}, "m": r.range(-3, 20), "col": r.chance(1, 5)})],
        6 => vec![json!({"op":"fact","q":r.range(1, 9),"t":[r.below(1024), r.below(1024)],"nt":1 + r.below(2),"dir":r.below(2)})],
        7 => vec![json!({"op":"rebuild"})],
        8 => vec![gen_query(r)],
        _ => vec![json!({"op":"drop"}), json!({"op":"create_index"})],
    }
}

impl Scenario for C28 {
    fn id(&self) -> &'static str {
        "C28"
    }
    fn runs(&self, tier: Tier) -> u64 {
        match tier {
            Tier::Quick => 3_600,
            Tier::Thorough => 60_000,
        }
    }
    fn rule(&self) -> &'static str {
        "history = DAG construction (every third run: the k-th labelled DAG with <=5 nodes, k cycling through all 1099; otherwise a random tree/forest, near-tree (>=20 nodes, <=n/20 extra parents), low-width DAG or dense small DAG; quick <=60 nodes, thorough <=300) with integer measures, isolated nodes and a fact table, CREATE HIERARCHY INDEX (knobs: measure / aggregates / reversed arrow / two covered types / labelled measure) at a PRNG-chosen point, then <=40 (thorough <=80) events: measure set/removal via Cypher and the three store APIs, covering-relationship create/delete and member delete via API and Cypher, REBUILD, DROP+CREATE (in a quarter of the runs a second index with its own name/measure/aggregates is declared over the same relationship type right after, just before or some time after the first, and REBUILD / DROP+CREATE address either one), and hierarchy queries (roll-up sum|count|min|max, descendant scan, [NOT] subsumes order test, hierarchy-driven count/sum over facts, near misses *1.. *1..3 * *0..2), each in its accepted spellings. After every write each declared index covering the written type must be unusable; a plan may only name a fresh index. After every step all OehIndex answers of every usable declared index and of forced nested-set / near-tree / chain side indexes are compared with brute force on the model; each query is planned (hierarchy operator present = rewrite fired) and its rows compared with the twin store without the index and with brute force. Non-trivial = the index was usable at some step, and a measure update or covering write happened after it was built, and at least one query was answered through a rewrite. Distinct = hash of (knobs, event kinds, resolved ranks)."
    }
    fn real_components(&self) -> Vec<&'static str> {
        vec![
            "samyama::index::hierarchy::{Poset, OehIndex (all three encodings), HierarchyIndexManager, monoid range structures}",
            "GraphStore write paths that maintain it (create_edge*, delete_edge, delete_node, set_node_property, set_column_property, remove_node_property)",
            "Cypher parser, planner (hierarchy_detector + plan_hierarchy_rewrite), hierarchy_ops operators, VarLengthExpand fallback, subsumes()",
        ]
    }
    fn stub_components(&self) -> Vec<&'static str> {
        vec![]
    }
    fn assumptions(&self) -> Vec<&'static str> {
        vec![
            "integer measures only, so summation order cannot matter",
            "a node's measure is written either only through the column store (set_column_property) or only through the row paths, never both, so 'the measure of a node' is unambiguous",
            "subsumes()-shaped queries have no variable-length twin; their oracle is brute force on the declared poset (reflexive, members only), checked only when the rewrite fired",
            "sum over a subtree without any measured node is compared with the twin store only (0 vs NULL is the engine's choice)",
            "with two indexes whose declarations order the nodes differently (other arrow / type set) a subsumes()-shaped query is compared with the order of the index the plan names; which index an unqualified subsumes() should mean is not asserted",
            "for posets above 70 members subsumption pairs / roots / LCA pairs are sampled deterministically per step (all true ancestor pairs are always checked)",
        ]
    }
    fn required_probes(&self, tier: Tier) -> Vec<&'static str> {
        let mut v = vec![
            "rewrite_fired",
            "rewrite_rollup",
            "rewrite_desc",
            "rewrite_order",
            "rewrite_driven",
            "near_miss_declined",
            "fallback_while_stale",
            "enc_nested-set",
            "enc_chain",
            "enc_near-tree",
            "measure_update_in_place",
            "rebuild_after_stale",
            "small_exhaustive",
            "api_rollup_sum_answered",
            "api_rollup_min_answered",
            "api_rollup_max_answered",
            "api_lca_multiple",
            "side_nested-set",
            "side_near-tree",
            "side_chain",
            "two_indexes_declared",
            "covering_write_two_indexes",
            "covering_write_two_fresh_indexes",
            "one_fresh_one_stale",
            "rewrite_via_first_named",
            "rewrite_via_later_named",
            "rewrite_while_other_index_stale",
            "second_index_checked",
            "measure_update_in_place_second_index",
        ];
        if tier == Tier::Thorough {
            v.push("poset_over_150");
        }
        v
    }
    fn extra_evidence(&self, _tier: Tier) -> serde_json::Map<String, Value> {
        let mut m = serde_json::Map::new();
        m.insert("labelled_dags_up_to_5_nodes".into(), json!(N_SMALL));
        m
    }
    fn generate(&self, s: &mut Streams, run_index: u64, tier: Tier) -> Case {
        let mut case = Case::new("C28");
        let k = &mut s.knobs;
        let measure = k.chance(9, 10);
        case.knobs.insert("measure".into(), json!(measure));
        case.knobs.insert("ops".into(), json!(if k.chance(1, 2) { 15 } else { 1 + k.below(15) }));
        case.knobs.insert("reverse".into(), json!(k.chance(1, 8)));
        case.knobs.insert("multi".into(), json!(k.chance(1, 8)));
        case.knobs.insert("mlabel".into(), json!(measure && k.chance(1, 10)));
        let big = tier == Tier::Thorough;
        let (shape, n, small) = if run_index % 3 == 0 {
            let mut idx = (run_index / 3) % N_SMALL;
            let mut sn = 1usize;
            loop {
                let cnt = 1u64 << (sn * (sn - 1) / 2);
                if idx < cnt {
                    break;
                }
                idx -= cnt;
                sn += 1;
            }
            (0u64, sn, Some((sn, idx)))
        } else {
            match k.weighted(&[0, 5, 4, 4, 2]) {
                1 => (1, if big && k.chance(1, 10) { 100 + k.usize_below(200) } else { k.short_len(2, 40) }, None),
                2 => (2, if big && k.chance(1, 8) { 100 + k.usize_below(200) } else { 20 + k.usize_below(41) }, None),
                3 => (3, if big && k.chance(1, 10) { 80 + k.usize_below(120) } else { k.short_len(4, 40) }, None),
                _ => (4, 3 + k.usize_below(10), None),
            }
        };
        case.knobs.insert("shape".into(), json!(shape));
        let dag = gen_dag(&mut s.workload, shape, n, small);
        let dag_len = dag.len();
        let pre = if k.chance(1, 5) { k.usize_below(dag_len + 1) } else { dag_len };
        let len = k.short_len(4, if big { 80 } else { 40 });
        for (i, e) in dag.into_iter().enumerate() {
            if i == pre {
                case.events.push(json!({"op":"create_index"}));
            }
            case.events.push(e);
        }
        if pre >= dag_len {
            case.events.push(json!({"op":"create_index"}));
        }
        let tail_start = case.events.len();
        let mut c = 0;
        while c < len {
            let evs = gen_mixed(&mut s.workload);
            c += evs.len();
            case.events.extend(evs);
        }
        // A second hierarchy index over the same stored relationship type in a quarter of the runs
        // (drawn after everything else, so the single-index runs are the histories they always were).
        if k.chance(1, 4) {
            let reverse = case.knob_bool("reverse", false);
            let multi = case.knob_bool("multi", false);
            let m2 = k.chance(2, 3);
            case.knobs.insert("i2".into(), json!(true));
            case.knobs.insert("i2_name".into(), json!(k.below(SECOND_NAMES.len() as u64)));
            case.knobs.insert("i2_measure".into(), json!(m2));
            case.knobs.insert("i2_ops".into(), json!(if k.chance(1, 2) { 15 } else { 1 + k.below(15) }));
            case.knobs.insert("i2_mlabel".into(), json!(m2 && k.chance(1, 8)));
            // mostly the same covering relation as the first index, sometimes another orientation / type set
            let same = k.chance(3, 4);
            case.knobs.insert("i2_reverse".into(), json!(if same { reverse } else { k.chance(1, 2) }));
            case.knobs.insert("i2_multi".into(), json!(if same { multi } else { k.chance(1, 2) }));
            // which index a REBUILD / DROP+CREATE of the history addresses
            let mut i = tail_start;
            while i < case.events.len() {
                let kind = op(&case.events[i]).to_string();
                if matches!(kind.as_str(), "rebuild" | "drop" | "create_index") {
                    let ix = s.sched.below(2);
                    case.events[i]["ix"] = json!(ix);
                    if kind == "drop" && i + 1 < case.events.len() && op(&case.events[i + 1]) == "create_index" {
                        case.events[i + 1]["ix"] = json!(ix);
                        i += 1;
                    }
                }
                i += 1;
            }
            // where the second index is declared: right after the first one, just before it, or later
            let first = case.events.iter().position(|e| op(e) == "create_index").unwrap_or(0);
            let at = match k.weighted(&[3, 1, 2]) {
                0 => first + 1,
                1 => first,
                _ => first + 1 + k.usize_below(case.events.len() - first),
            };
            case.events.insert(at.min(case.events.len()), json!({"op":"create_index","ix":1}));
        }
        case
    }
    fn shrink_event(&self, ev: &Value) -> Vec<Value> {
        let mut out = Vec::new();
        match op(ev) {
            "node" => {
                if ev["col"].as_bool() == Some(true) || ev["lab"].as_u64() != Some(0) {
                    let mut e = ev.clone();
                    e["col"] = json!(false);
                    e["lab"] = json!(0);
                    out.push(e);
                }
            }
            "create_index" | "rebuild" | "drop" => {
                if u(ev, "ix") != 0 {
                    let mut e = ev.clone();
                    e["ix"] = json!(0);
                    out.push(e);
                }
            }
            "edge" | "del_edge" | "del_node" => {
                if u(ev, "via") != 0 {
                    let mut e = ev.clone();
                    e["via"] = json!(0);
                    out.push(e);
                }
            }
            "set_m" | "rm_m" => {
                if u(ev, "via") != 1 {
                    let mut e = ev.clone();
                    e["via"] = json!(1);
                    out.push(e);
                }
            }
            "query" => {
                for key in ["alias", "upper", "rev", "swap"] {
                    if ev.get(key).and_then(|x| x.as_bool()) == Some(true) {
                        let mut e = ev.clone();
                        e[key] = json!(false);
                        out.push(e);
                    }
                }
            }
            _ => {}
        }
        out
    }
    fn execute(&self, case: &Case) -> Outcome {
        let mut o = Outcome::new();
        let cfg = Cfg::from(case);
        let mut ixs = vec![Ix { cfg: cfg.clone(), declared: false, fresh: false }];
        if let Some(c2) = Cfg::second(case) {
            ixs.push(Ix { cfg: c2, declared: false, fresh: false });
        }
        let mut s = Sim { g: GraphStore::new(), twin: GraphStore::new(), engine: QueryEngine::new(), engine_twin: QueryEngine::new(), m: Model::default(), ixs, sides: Vec::new(), hash: 0 };
        let mut sig_parts: Vec<String> = vec![format!("{:?}", case.knobs)];
        let mut was_usable = false;
        let mut post_build_change = false;
        let mut rewrites = 0u64;
        if case.knob_u64("shape", 1) == 0 {
            o.probe("small_exhaustive");
        }
        'run: for (step, ev) in case.events.iter().enumerate() {
            let kind = op(ev).to_string();
            let mut resolved = String::new();
            match kind.as_str() {
                "node" | "fact" => {
                    let fact = kind == "fact";
                    let label: &'static str = if fact {
                        "F"
                    } else if u(ev, "lab") == 0 {
                        "H"
                    } else {
                        "G"
                    };
                    let code = s.m.next_code;
                    s.m.next_code += 1;
                    let colonly = !fact && ev["col"].as_bool().unwrap_or(false);
                    let mval = if fact { None } else { ev["m"].as_i64() };
                    let q = ev["q"].as_i64().unwrap_or(0);
                    let mut ids = Vec::new();
                    for g in [&mut s.g, &mut s.twin] {
                        let id = if colonly {
                            let id = g.create_node(label);
                            g.set_column_property(id, "code", PropertyValue::Integer(code));
                            if let Some(v) = mval {
                                g.set_column_property(id, "m", PropertyValue::Integer(v));
                            }
                            id
                        } else {
                            let mut pm = PropertyMap::new();
                            pm.insert("code".to_string(), PropertyValue::Integer(code));
                            if let Some(v) = mval {
                                pm.insert("m".to_string(), PropertyValue::Integer(v));
                            }
                            if fact {
                                pm.insert("q".to_string(), PropertyValue::Integer(q));
                            }
                            g.create_node_with_properties("default", vec![Label::new(label)], pm)
                        };
                        ids.push(id.as_u64());
                    }
                    if ids[0] != ids[1] || s.m.nodes.contains_key(&ids[0]) {
                        o.probe("harness_id_divergence");
                        break 'run;
                    }
                    s.m.nodes.insert(ids[0], MNode { label, code, m: mval, colonly, fact, q, mev: [0; MAX_IX] });
                    if fact {
                        // relationships to hierarchy members: X stored fact->member, Y stored member->fact
                        let hier = s.m.hier();
                        let nt = u(ev, "nt").max(1) as usize;
                        let ty: &'static str = if u(ev, "dir") == 0 { "X" } else { "Y" };
                        for ti in 0..nt {
                            let Some(h) = pick(&hier, ev["t"][ti].as_u64().unwrap_or(0)) else { continue };
                            let (a, b) = if ty == "X" { (ids[0], h) } else { (h, ids[0]) };
                            let e1 = s.g.create_edge(NodeId::new(a), NodeId::new(b), ty);
                            let e2 = s.twin.create_edge(NodeId::new(a), NodeId::new(b), ty);
                            if let (Ok(e1), Ok(e2)) = (e1, e2) {
                                if e1 == e2 {
                                    s.m.edges.insert(e1.as_u64(), (a, b, ty));
                                }
                            }
                        }
                    }
                }
                "edge" => {
                    let hier = s.m.hier();
                    let (Some(c), Some(p)) = (pick(&hier, u(ev, "c")), pick(&hier, u(ev, "p"))) else { continue };
                    if s.m.would_cycle(cfg.reverse, c, p) {
                        continue;
                    }
                    let ty: &'static str = if u(ev, "ty") == 0 { "T" } else { "U" };
                    let (a, b) = if cfg.reverse { (p, c) } else { (c, p) };
                    let via = u(ev, "via");
                    let before: BTreeSet<u64> = s.g.edges_between(NodeId::new(a), NodeId::new(b), Some(&EdgeType::new(ty))).into_iter().map(|e| e.as_u64()).collect();
                    let new_id = match via {
                        1 => {
                            let q = format!("MATCH {}, {} CREATE (a)-[:{ty}]->(b)", s.pin(a, "a"), s.pin(b, "b"));
                            if let Err(e) = s.both_write(&q) {
                                o.probe("harness_cypher_write_failed");
                                eprintln!("C28 harness: {e}");
                                break 'run;
                            }
                            let after: Vec<u64> = s.g.edges_between(NodeId::new(a), NodeId::new(b), Some(&EdgeType::new(ty))).into_iter().map(|e| e.as_u64()).filter(|e| !before.contains(e)).collect();
                            if after.len() != 1 {
                                o.probe("harness_cypher_write_failed");
                                break 'run;
                            }
                            after[0]
                        }
                        _ => {
                            let (r1, r2) = if via == 2 {
                                let mut pm = PropertyMap::new();
                                pm.insert("w".to_string(), PropertyValue::Integer(1));
                                (s.g.create_edge_with_properties(NodeId::new(a), NodeId::new(b), ty, pm.clone()), s.twin.create_edge_with_properties(NodeId::new(a), NodeId::new(b), ty, pm))
                            } else {
                                (s.g.create_edge(NodeId::new(a), NodeId::new(b), ty), s.twin.create_edge(NodeId::new(a), NodeId::new(b), ty))
                            };
                            match (r1, r2) {
                                (Ok(x), Ok(y)) if x == y => x.as_u64(),
                                _ => {
                                    o.probe("harness_id_divergence");
                                    break 'run;
                                }
                            }
                        }
                    };
                    s.m.edges.insert(new_id, (a, b, ty));
                    resolved = format!("{}>{}:{ty}:{via}", hier.iter().position(|x| *x == c).unwrap(), hier.iter().position(|x| *x == p).unwrap());
                    let (v, hit) = s.after_write(&[ty].into_iter().collect(), &format!("create_relationship_{}", ["api", "cypher", "api_props"][via as usize % 3]), step, &mut o);
                    post_build_change |= hit;
                    if let Some(v) = v {
                        o.violate(v);
                        break 'run;
                    }
                }
                "del_edge" => {
                    let cands: Vec<u64> = s.m.edges.iter().filter(|(_, (_, _, t))| *t == "T" || *t == "U").map(|(i, _)| *i).collect();
                    let Some(e) = pick(&cands, u(ev, "e")) else { continue };
                    let (a, b, ty) = s.m.edges[&e];
                    let via = u(ev, "via");
                    if via == 1 {
                        let q = format!("MATCH {}-[e:{ty}]->{} DELETE e", s.pin(a, "a"), s.pin(b, "b"));
                        if let Err(err) = s.both_write(&q) {
                            o.probe("harness_cypher_write_failed");
                            eprintln!("C28 harness: {err}");
                            break 'run;
                        }
                        s.m.edges.retain(|_, (x, y, t)| !(*x == a && *y == b && *t == ty));
                    } else {
                        let r1 = s.g.delete_edge(EdgeId::new(e));
                        let r2 = s.twin.delete_edge(EdgeId::new(e));
                        if r1.is_err() || r2.is_err() {
                            o.probe("harness_id_divergence");
                            break 'run;
                        }
                        s.m.edges.remove(&e);
                    }
                    resolved = format!("{}:{via}", cands.iter().position(|x| *x == e).unwrap());
                    let (v, hit) = s.after_write(&[ty].into_iter().collect(), &format!("delete_relationship_{}", ["api", "cypher"][via as usize % 2]), step, &mut o);
                    post_build_change |= hit;
                    if let Some(v) = v {
                        o.violate(v);
                        break 'run;
                    }
                }
                "del_node" => {
                    let hier = s.m.hier();
                    let Some(n) = pick(&hier, u(ev, "n")) else { continue };
                    let via = u(ev, "via");
                    let touched: BTreeSet<&'static str> = s.m.edges.values().filter(|(a, b, _)| *a == n || *b == n).map(|(_, _, t)| *t).collect();
                    if via == 1 {
                        let q = format!("MATCH {} DETACH DELETE n", s.pin(n, "n"));
                        if let Err(err) = s.both_write(&q) {
                            o.probe("harness_cypher_write_failed");
                            eprintln!("C28 harness: {err}");
                            break 'run;
                        }
                    } else {
                        let r1 = s.g.delete_node("default", NodeId::new(n));
                        let r2 = s.twin.delete_node("default", NodeId::new(n));
                        if r1.is_err() || r2.is_err() {
                            o.probe("harness_id_divergence");
                            break 'run;
                        }
                    }
                    s.m.edges.retain(|_, (a, b, _)| *a != n && *b != n);
                    s.m.nodes.remove(&n);
                    resolved = format!("{}:{via}", hier.iter().position(|x| *x == n).unwrap());
                    let (v, hit) = s.after_write(&touched, &format!("delete_member_{}", ["api", "cypher"][via as usize % 2]), step, &mut o);
                    post_build_change |= hit;
                    if let Some(v) = v {
                        o.violate(v);
                        break 'run;
                    }
                }
                "set_m" | "rm_m" => {
                    let hier = s.m.hier();
                    let Some(n) = pick(&hier, u(ev, "n")) else { continue };
                    let node = s.m.nodes[&n].clone();
                    let via = u(ev, "via");
                    let set = kind == "set_m";
                    let v = ev["v"].as_i64().unwrap_or(0);
                    let id = NodeId::new(n);
                    let how;
                    if set {
                        if node.colonly {
                            how = "set_column_property";
                            s.g.set_column_property(id, "m", PropertyValue::Integer(v));
                            s.twin.set_column_property(id, "m", PropertyValue::Integer(v));
                        } else if via == 0 {
                            how = "cypher_set";
                            let q = format!("MATCH {} SET n.m = {v}", s.pin(n, "n"));
                            if let Err(err) = s.both_write(&q) {
                                o.probe("harness_cypher_write_failed");
                                eprintln!("C28 harness: {err}");
                                break 'run;
                            }
                        } else {
                            how = "set_node_property";
                            let r1 = s.g.set_node_property("default", id, "m", PropertyValue::Integer(v));
                            let r2 = s.twin.set_node_property("default", id, "m", PropertyValue::Integer(v));
                            if r1.is_err() || r2.is_err() {
                                o.probe("harness_id_divergence");
                                break 'run;
                            }
                        }
                        s.m.nodes.get_mut(&n).unwrap().m = Some(v);
                        s.m.nodes.get_mut(&n).unwrap().mev = [1; MAX_IX];
                    } else {
                        if node.colonly || via == 1 {
                            how = "remove_node_property";
                            s.g.remove_node_property(id, "m");
                            s.twin.remove_node_property(id, "m");
                        } else {
                            how = if via == 0 { "cypher_remove" } else { "cypher_set_null" };
                            let q = if via == 0 { format!("MATCH {} REMOVE n.m", s.pin(n, "n")) } else { format!("MATCH {} SET n.m = null", s.pin(n, "n")) };
                            if let Err(err) = s.both_write(&q) {
                                o.probe("harness_cypher_write_failed");
                                eprintln!("C28 harness: {err}");
                                break 'run;
                            }
                        }
                        // what the store says now is the measure (SET n.m = null may keep or drop the key)
                        let now = s.twin.node_properties_full(id).get("m").cloned();
                        let now = match now {
                            Some(PropertyValue::Integer(i)) => Some(i),
                            _ => None,
                        };
                        if now.is_some() {
                            o.probe("removal_kept_value");
                        }
                        s.m.nodes.get_mut(&n).unwrap().m = now;
                        s.m.nodes.get_mut(&n).unwrap().mev = [2; MAX_IX];
                    }
                    resolved = format!("{}:{how}", hier.iter().position(|x| *x == n).unwrap());
                    if s.any_declared() {
                        post_build_change = true;
                    }
                    // mirror the manager's in-place update on the forced-encoding side indexes
                    if cfg.measure {
                        // (label-aware, as a correct caller of a label-restricted measure would)
                        let newv = s.m.idx_measure(&cfg, n).map(|x| RollupValue::Int(x as i128));
                        let mut ok = true;
                        for side in s.sides.iter_mut() {
                            ok &= side.idx.update_measure(id, newv);
                        }
                        if !ok {
                            s.sides.clear();
                        }
                    }
                    if s.ixs[0].declared && s.ixs[0].fresh && cfg.measure && s.usable(0) {
                        o.probe("measure_update_in_place");
                        o.probe(&format!("measure_{how}"));
                    }
                    if s.ixs.len() > 1 && s.ixs[1].declared && s.ixs[1].fresh && s.ixs[1].cfg.measure && s.usable(1) {
                        o.probe("measure_update_in_place_second_index");
                    }
                }
                "create_index" | "rebuild" => {
                    let create = kind == "create_index";
                    let ixn = u(ev, "ix") as usize;
                    if ixn >= s.ixs.len() || create == s.ixs[ixn].declared {
                        continue;
                    }
                    let icfg = s.ixs[ixn].cfg.clone();
                    let q = if create { icfg.ddl() } else { format!("REBUILD HIERARCHY INDEX {}", icfg.name) };
                    let was_stale = !s.ixs[ixn].fresh;
                    match run_write(&s.engine, &mut s.g, &q) {
                        Ok(Ok((cols, rows))) => {
                            s.ixs[ixn].declared = true;
                            s.ixs[ixn].fresh = true;
                            for n in s.m.nodes.values_mut() {
                                n.mev[ixn % MAX_IX] = 0;
                            }
                            let t = s.m.truth(&icfg);
                            if ixn == 0 {
                                s.sides = build_sides(&s.g, &icfg, t.forest);
                                for side in &s.sides {
                                    o.probe(&format!("side_{}", side.enc.name()));
                                }
                            }
                            if t.nodes.len() > 150 {
                                o.probe("poset_over_150");
                            }
                            let row = rows.first().cloned().unwrap_or_default();
                            let enc = cols.iter().position(|c| c == "encoding").and_then(|i| row.split('|').nth(i).map(|x| x.to_string())).unwrap_or_default();
                            let enc = enc.trim_start_matches("S:").trim_matches('"').to_string();
                            o.probe(&format!("enc_{enc}"));
                            if !create && was_stale {
                                o.probe("rebuild_after_stale");
                            }
                            if s.declared_count() >= 2 {
                                o.probe("two_indexes_declared");
                                // one index rebuilt while the other still waits for its rebuild
                                if s.ixs.iter().any(|x| x.declared && !x.fresh) {
                                    o.probe("one_fresh_one_stale");
                                }
                            }
                            resolved = format!("{ixn}{enc}");
                        }
                        Ok(Err(e)) => {
                            o.violate(Violation::new(format!("C28/ddl_refused/{kind}/{}", s.tag(ixn)), format!("{q}: {e} (the covering relation is acyclic)"), step));
                            break 'run;
                        }
                        Err(p) => {
                            o.violate(Violation::new(format!("C28/panic/{kind}/{}", s.tag(ixn)), format!("{q}: panic {p}"), step));
                            break 'run;
                        }
                    }
                }
                "drop" => {
                    let ixn = u(ev, "ix") as usize;
                    if ixn >= s.ixs.len() || !s.ixs[ixn].declared {
                        continue;
                    }
                    let name = s.ixs[ixn].cfg.name.clone();
                    let _ = run_write(&s.engine, &mut s.g, &format!("DROP HIERARCHY INDEX {name}"));
                    s.ixs[ixn].declared = false;
                    s.ixs[ixn].fresh = false;
                    if ixn == 0 {
                        s.sides.clear();
                    }
                    resolved = format!("{ixn}");
                    if s.g.hierarchy_index.get(&name).is_some() {
                        o.violate(Violation::new("C28/drop/still_registered", format!("DROP HIERARCHY INDEX {name} left the entry registered"), step));
                        break 'run;
                    }

                }
                "query" => {
                    if !s.any_declared() {
                        continue;
                    }
                    let hier = s.m.hier();
                    let Some(root) = pick(&hier, u(ev, "root")) else { continue };
                    let shape = ev["shape"].as_str().unwrap_or("rollup").to_string();
                    let b = |k: &str| ev[k].as_bool().unwrap_or(false);
                    let rp = s.pin(root, "r");
                    // ---- build the statement and its brute-force answer
                    let mut twin_compare = false;
                    let mut expected: Option<Vec<String>> = None;
                    let mut opname = String::new();
                    let mut mclass = "structure";
                    let mut mclass_set: Option<BTreeSet<u64>> = None;
                    let q: String;
                    let mut near_spelling = "";
                    match shape.as_str() {
                        "rollup" | "desc" | "near" => {
                            let ty = if u(ev, "ty") == 0 { "T" } else { "U" };
                            let (len, min, max): (&str, usize, Option<usize>) = if shape == "near" {
                                [("*1..", 1, None), ("*1..3", 1, Some(3)), ("*", 1, None), ("*0..2", 0, Some(2))][u(ev, "len") as usize % 4]
                            } else {
                                ("*0..", 0, None)
                            };
                            near_spelling = len;
                            let pat = if b("rev") { format!("{rp}<-[:{ty}{len}]-(d)") } else { format!("(d)-[:{ty}{len}]->{rp}") };
                            let dset = s.m.stored_reach_to(root, ty, min, max);
                            let agg = if shape == "desc" { 4 } else { u(ev, "agg") % 5 };
                            if agg == 4 || shape == "desc" {
                                opname = "nodes".into();
                                q = format!("MATCH {pat} RETURN d");
                                expected = Some(dset.iter().map(|d| format!("N{d}")).collect());
                            } else {
                                let name = ["sum", "count", "min", "max"][agg as usize];
                                opname = name.to_string();
                                let f = if b("upper") { name.to_uppercase() } else { name.to_string() };
                                let arg = if name == "count" { "d".to_string() } else { "d.m".to_string() };
                                let alias = if b("alias") { " AS v" } else { "" };
                                q = format!("MATCH {pat} RETURN {f}({arg}){alias}");
                                let vals: Vec<i64> = dset.iter().filter_map(|d| s.m.nodes[d].m).collect();
                                if name != "count" {
                                    mclass_set = Some(dset.clone());
                                }
                                expected = match name {
                                    "count" => Some(vec![format!("I:{}", dset.len())]),
                                    _ if vals.is_empty() => None,
                                    "sum" => Some(vec![format!("I:{}", vals.iter().sum::<i64>())]),
                                    "min" => Some(vec![format!("I:{}", vals.iter().min().unwrap())]),
                                    _ => Some(vec![format!("I:{}", vals.iter().max().unwrap())]),
                                };
                            }
                            twin_compare = true;
                        }
                        "order" => {
                            let lab = ["H", "G", ""][u(ev, "lab") as usize % 3];
                            let dpat = if lab.is_empty() { "(d)".to_string() } else { format!("(d:{lab})") };
                            let pats = if b("swap") { format!("{rp}, {dpat}") } else { format!("{dpat}, {rp}") };
                            let neg = b("neg");
                            let out = u(ev, "out") % 3;
                            let ret = ["count(d)", "count(*)", "d"][out as usize];
                            opname = format!("{}{}", if neg { "not_" } else { "" }, ["count_d", "count_star", "nodes"][out as usize]);
                            q = format!("MATCH {pats} WHERE {}subsumes(d, r) RETURN {ret}", if neg { "NOT " } else { "" });
                        }
                        _ => {
                            // hierarchy-driven aggregate over the fact table
                            let dir = u(ev, "dir") % 2;
                            let fpat = if b("flab") { "(e:F)" } else { "(e)" };
                            let path = if dir == 0 { format!("{fpat}-[:X]->(x)") } else { format!("{fpat}<-[:Y]-(x)") };
                            let pats = if b("swap") { format!("{rp}, {path}") } else { format!("{path}, {rp}") };
                            let out = u(ev, "out") % 3;
                            let ret = ["count(e)", "count(DISTINCT e)", "sum(e.q)"][out as usize];
                            opname = ["count", "count_distinct", "sum"][out as usize].to_string();
                            q = format!("MATCH {pats} WHERE subsumes(x, r) RETURN {ret}");
                        }
                    }
                    // ---- plan: which index (if any) does the planner rewrite the query onto?
                    let plan = plan_text(&s.g, &q);
                    let fired = plan.as_ref().map(|p| p.contains("Hierarchy")).unwrap_or(false);
                    let via_name: Option<String> = plan.as_ref().ok().and_then(|p| p.split(" via ").nth(1)).map(|rest| rest.chars().take_while(|c| c.is_alphanumeric() || *c == '_').collect());
                    let used: usize = if fired { via_name.as_ref().and_then(|n| s.ixs.iter().position(|x| &x.cfg.name == n)).unwrap_or(0) } else { 0 };
                    let ucfg = s.ixs[used].cfg.clone();
                    let utag = s.tag(used);
                    if let Some(set) = &mclass_set {
                        mclass = s.m.mstate(set.iter(), used);
                    }
                    // brute force for the subsumes() shapes: the order of the index the plan names
                    match shape.as_str() {
                        "order" => {
                            let truth = s.m.truth(&ucfg);
                            let lab = ["H", "G", ""][u(ev, "lab") as usize % 3];
                            let neg = b("neg");
                            let out = u(ev, "out") % 3;
                            let rows: Vec<u64> = s
                                .m
                                .nodes
                                .iter()
                                .filter(|(_, n)| lab.is_empty() || n.label == lab)
                                .filter(|(i, _)| {
                                    let under = truth.nodes.contains(i) && truth.anc.get(i).map(|a| a.contains(&root)).unwrap_or(false);
                                    under != neg
                                })
                                .map(|(i, _)| *i)
                                .collect();
                            expected = Some(if out == 2 { rows.iter().map(|d| format!("N{d}")).collect() } else { vec![format!("I:{}", rows.len())] });
                        }
                        "driven" => {
                            let truth = s.m.truth(&ucfg);
                            let dir = u(ev, "dir") % 2;
                            let out = u(ev, "out") % 3;
                            let ety = if dir == 0 { "X" } else { "Y" };
                            let pairs: Vec<(u64, u64)> = s
                                .m
                                .edges
                                .values()
                                .filter(|(_, _, t)| *t == ety)
                                .map(|(a, b2, _)| if dir == 0 { (*a, *b2) } else { (*b2, *a) })
                                .filter(|(_, x)| truth.nodes.contains(x) && truth.anc[x].contains(&root))
                                .collect();
                            expected = match out {
                                0 => Some(vec![format!("I:{}", pairs.len())]),
                                1 => Some(vec![format!("I:{}", pairs.iter().map(|p| p.0).collect::<BTreeSet<_>>().len())]),
                                _ if pairs.is_empty() => None,
                                _ => Some(vec![format!("I:{}", pairs.iter().map(|p| s.m.nodes[&p.0].q).sum::<i64>())]),
                            };
                        }
                        _ => {}
                    }
                    let mut expected = expected;
                    if let Some(e) = expected.as_mut() {
                        e.sort();
                    }
                    let any_usable = (0..s.ixs.len()).any(|i| s.ixs[i].declared && s.usable(i));
                    let none_fresh = !s.ixs.iter().any(|x| x.declared && x.fresh);
                    resolved = format!("{shape}:{opname}:{}:{}", hier.iter().position(|x| *x == root).unwrap(), if fired { format!("true{used}") } else { "false".to_string() });
                    o.steps += 1;
                    if fired {
                        rewrites += 1;
                        o.probe("rewrite_fired");
                        o.probe(&format!("rewrite_{shape}"));
                        if !s.ixs[used].fresh {
                            o.violate(Violation::new(format!("C28/answered_while_stale/{shape}/{utag}"), format!("{q}: planned onto index {} although its covering relation changed since its build\n{}", ucfg.name, plan.clone().unwrap_or_default()), step));
                            break 'run;
                        }
                        if shape == "near" {
                            o.violate(Violation::new(format!("C28/near_miss_rewritten/{near_spelling}/{utag}"), format!("{q}: planned as\n{}", plan.clone().unwrap_or_default()), step));
                            break 'run;
                        }
                        if s.declared_count() >= 2 {
                            let later = s.ixs.iter().any(|x| x.declared && x.cfg.name < ucfg.name);
                            o.probe(if later { "rewrite_via_later_named" } else { "rewrite_via_first_named" });
                            if s.ixs.iter().any(|x| x.declared && !x.fresh) {
                                o.probe("rewrite_while_other_index_stale");
                            }
                        }
                    } else {
                        if shape == "near" && any_usable {
                            o.probe("near_miss_declined");
                        }
                        if none_fresh && matches!(shape.as_str(), "rollup" | "desc") {
                            o.probe("fallback_while_stale");
                        }
                    }
                    let got = run_read(&s.engine, &s.g, &q);
                    let got = match got {
                        Ok(r) => r,
                        Err(p) => {
                            o.violate(Violation::new(format!("C28/panic/query_{shape}_{opname}/{}", if fired { "rewritten" } else { "fallback" }), format!("{q}: panic {p}"), step));
                            break 'run;
                        }
                    };
                    s.mix(&format!("{q}=>{got:?}"));
                    if twin_compare {
                        let tw = run_read(&s.engine_twin, &s.twin, &q).unwrap_or_else(|p| Err(format!("panic {p}")));
                        match (&got, &tw) {
                            (Ok(a), Ok(bb)) => {
                                if a != bb {
                                    let (clause, class) = if fired && a.1 == bb.1 {
                                        ("rewrite_vs_expansion", "column_name".to_string())
                                    } else if fired {
                                        ("rewrite_vs_expansion", format!("{utag}/{mclass}"))
                                    } else { ("fallback_vs_twin", if !none_fresh { "fresh".to_string() } else { "stale".to_string() }) };
                                    o.violate(Violation::new(
                                        format!("C28/{clause}/{shape}_{opname}/{class}"),
                                        format!("{q}\n with index: {:?} {:?}\n twin store without index: {:?} {:?}\n plan: {}", a.0, a.1, bb.0, bb.1, plan.clone().unwrap_or_default()),
                                        step,
                                    ));
                                    break 'run;
                                }
                            }
                            (Err(e), Ok(_)) => {
                                o.violate(Violation::new(format!("C28/query_error/{shape}_{opname}/{}", if fired { "rewritten" } else { "fallback" }), format!("{q}: {e} (twin store answers)"), step));
                                break 'run;
                            }
                            (Ok(_), Err(e)) => {
                                if fired {
                                    o.violate(Violation::new(format!("C28/rewrite_vs_expansion/{shape}_{opname}/twin_errors"), format!("{q}: twin store without index fails with {e}, the rewritten query answers"), step));
                                    break 'run;
                                }
                                o.probe("query_error_twin_only");
                            }
                            (Err(_), Err(_)) => o.probe("query_error_both"),
                        }
                    }
                    if let (Ok((_, rows)), Some(exp)) = (&got, &expected) {
                        let check = fired || twin_compare;
                        if check && rows != exp {
                            let clause = match (shape.as_str(), fired) {
                                ("order", _) => "order_test",
                                ("driven", _) => "driven",
                                (_, true) => "rewrite_vs_bruteforce",
                                (_, false) => "fallback_vs_bruteforce",
                            };
                            let class = if fired { format!("{utag}/{mclass}") } else if !none_fresh { "fresh".to_string() } else { "stale".to_string() };
                            o.violate(Violation::new(format!("C28/{clause}/{shape}_{opname}/{class}"), format!("{q}\n returned {rows:?}\n brute force {exp:?}\n plan: {}", plan.clone().unwrap_or_default()), step));
                            break 'run;
                        }
                    } else if let (Err(e), true) = (&got, fired && !twin_compare) {
                        o.violate(Violation::new(format!("C28/query_error/{shape}_{opname}/rewritten"), format!("{q}: {e}"), step));
                        break 'run;
                    }
                }
                _ => continue,
            }
            sig_parts.push(format!("{kind}{resolved}"));
            o.steps += 1;
            // ---- invariants after every step, for every declared index
            let mut truths: Vec<((bool, bool), Truth)> = Vec::new();
            for ixn in 0..s.ixs.len() {
                if !s.ixs[ixn].declared {
                    continue;
                }
                let icfg = s.ixs[ixn].cfg.clone();
                let usable = s.usable(ixn);
                s.mix(&format!("u{usable}"));
                if usable && !s.ixs[ixn].fresh {
                    o.violate(Violation::new(format!("C28/usable_while_stale/{kind}/{}", s.tag(ixn)), format!("the covering relation of index {} changed since its build and the entry reports usable", icfg.name), step));
                    break 'run;
                }
                if !s.ixs[ixn].fresh {
                    continue;
                }
                let key = (icfg.reverse, icfg.multi);
                if !truths.iter().any(|(k, _)| *k == key) {
                    truths.push((key, s.m.truth(&icfg)));
                }
                let t = &truths.iter().find(|(k, _)| *k == key).unwrap().1;
                if usable {
                    was_usable = true;
                    if ixn > 0 {
                        o.probe("second_index_checked");
                    }
                    let entry = s.g.hierarchy_index.get(&icfg.name).unwrap();
                    let guard = entry.read().unwrap();
                    let idx = guard.index.as_ref().unwrap();
                    let r = catch_unwind(AssertUnwindSafe(|| check_index(idx, "manager", ixn, &s.m, &icfg, t, step, step as u64, &mut o)));
                    match r {
                        Ok(Some(v)) => {
                            drop(guard);
                            o.violate(v);
                            break 'run;
                        }
                        Ok(None) => {}
                        Err(p) => {
                            drop(guard);
                            o.violate(Violation::new(format!("C28/panic/api/{}", icfg.tag()), format!("panic in OehIndex call: {}", panic_text(p)), step));
                            break 'run;
                        }
                    }
                } else {
                    o.probe("unusable_without_covering_write");
                }
                if ixn != 0 {
                    continue;
                }
                let mut side_violation = None;
                for side in &s.sides {
                    let r = catch_unwind(AssertUnwindSafe(|| check_index(&side.idx, "forced", 0, &s.m, &icfg, t, step, step as u64 + 1, &mut o)));
                    match r {
                        Ok(Some(v)) => {
                            side_violation = Some(v);
                            break;
                        }
                        Ok(None) => {}
                        Err(p) => {
                            side_violation = Some(Violation::new(format!("C28/panic/api_forced_{}/{}", side.enc.name(), icfg.tag()), format!("panic in OehIndex call: {}", panic_text(p)), step));
                            break;
                        }
                    }
                }
                if let Some(v) = side_violation {
                    o.violate(v);
                    break 'run;
                }
            }
        }
        o.nontrivial = was_usable && post_build_change && rewrites > 0;
        o.class_key = hash_str(&sig_parts.join(","));
        s.mix(&format!("{:?}|{:?}", s.m.nodes.keys().collect::<Vec<_>>(), s.m.edges));
        o.state_hash = s.hash;
        o
    }
}
