//! C29 — vector search returns live, current, correctly ranked nodes.
//!
//! Sim: one history of vector-bearing node creations, vector updates, overwriting the
//! vector with a non-vector, property removal, label add/remove, node deletes (ids are
//! reused by the store), `CREATE VECTOR INDEX` (cosine / L2, DDL or API + rebuild) at a
//! PRNG-chosen point, explicit `rebuild_vector_index`, and searches (via
//! `VectorIndexManager::search`, `GraphStore::vector_search` and
//! `CALL db.index.vector.queryNodes`) interleaved.  Two store flavours (knob): the
//! synchronous store, and `GraphStore::with_async_indexing()` whose background indexer
//! future is polled by the simulator only at `drain` events (searches issued while index
//! events are still queued are counted as lagging reads and not asserted).
//!
//! Two embedding properties: in 1/3 of the runs (knob `props2`) a second property `emb2` carries an
//! independent vector and (V, emb2) -- sometimes also (W, emb2) -- gets its own index (own metric,
//! own declaration point), so a label has two vector indexes; every search names the property it
//! searches and is judged against the model's vectors at that property.
//!
//! Size classes: most runs keep every index small enough to be searched exactly (<= 128
//! vectors); in 1/8 of the runs (knob `big`) a `bulk` event creates 140-200 (thorough: up to
//! 400) vector-bearing nodes at once, so the (label, emb) index is answered from the HNSW
//! graph, and the history then updates / relabels / deletes any of them and searches with k
//! up to 100.
//!
//! Oracle: brute-force k-NN over the model under the DECLARED metric.  While model or index
//! hold more than 128 vectors for the label, only what the statement promises for every index
//! is asserted (live nodes carrying label and vector, each at most once, listed in
//! non-decreasing declared distance to their CURRENT vector, reported score = that distance);
//! "exactly the k nearest" is asserted only for exactly-searched indexes.  Vectors are small
//! integer grid points (exact in f32), queries half-integer grid points; distances are
//! recomputed in f64 and compared with a 1e-5 tie tolerance (ties compared as sets).

use crate::kit::core::*;
use crate::kit::exec::Tasks;
use crate::kit::model::*;
use crate::kit::rng::{Rng, Streams};
use samyama::graph::{GraphStore, Label, NodeId, PropertyMap, PropertyValue};
use samyama::persistence::TenantManager;
use samyama::query::executor::record::Value as QV;
use samyama::query::QueryEngine;
use samyama::vector::DistanceMetric;
use serde_json::{json, Value};
use std::collections::{BTreeMap, BTreeSet};
use std::panic::{catch_unwind, AssertUnwindSafe};
use std::sync::Arc;

pub struct C29;

const LABELS: [&str; 2] = ["V", "W"];
/// Embedding properties: every run uses `emb`; runs with knob `props2` also declare indexes on
/// (label, `emb2`) and keep a second, independent vector per node there.
const PROPS: [&str; 2] = ["emb", "emb2"];
const EPS: f64 = 1e-5;
/// `VectorIndex` answers an index of up to this many vectors by an exact scan, a larger one from the HNSW graph
const EXACT_MAX: usize = 128;

#[derive(Clone, Debug)]
struct MNode {
    labels: BTreeSet<&'static str>,
    /// current vector at PROPS[0] / PROPS[1]
    vecs: [Option<Vec<i64>>; 2],
    code: i64,
}

#[derive(Default)]
struct Model {
    nodes: BTreeMap<u64, MNode>,
    /// (label, property index into PROPS) -> declared metric (0 cosine, 1 l2)
    idx: BTreeMap<(&'static str, usize), u64>,
    next_code: i64,
    ever_deleted: BTreeSet<u64>,
}

fn cosine(a: &[f64], b: &[f64]) -> f64 {
    let dot: f64 = a.iter().zip(b).map(|(x, y)| x * y).sum();
    let na: f64 = a.iter().map(|x| x * x).sum();
    let nb: f64 = b.iter().map(|x| x * x).sum();
    if na <= 0.0 || nb <= 0.0 {
        return 1.0;
    }
    (1.0 - (dot / (na.sqrt() * nb.sqrt())).clamp(-1.0, 1.0)).max(0.0)
}

fn l2(a: &[f64], b: &[f64]) -> f64 {
    a.iter().zip(b).map(|(x, y)| (x - y) * (x - y)).sum::<f64>().sqrt()
}

fn dist(metric: u64, a: &[f64], b: &[f64]) -> f64 {
    if metric == 0 {
        cosine(a, b)
    } else {
        l2(a, b)
    }
}

fn pick(list: &[u64], i: u64) -> Option<u64> {
    if list.is_empty() {
        None
    } else {
        Some(list[(i as usize) % list.len()])
    }
}

fn vec_lit(v: &[i64], floats: bool) -> String {
    let parts: Vec<String> = v.iter().map(|x| if floats { format!("{x}.0") } else { format!("{x}") }).collect();
    format!("[{}]", parts.join(", "))
}

fn panic_text(p: Box<dyn std::any::Any + Send>) -> String {
    if let Some(s) = p.downcast_ref::<&str>() {
        s.to_string()
    } else if let Some(s) = p.downcast_ref::<String>() {
        s.clone()
    } else {
        "panic".into()
    }
}

fn gen_vec(r: &mut Rng, dim: usize) -> Vec<i64> {
    loop {
        let v: Vec<i64> = (0..dim).map(|_| r.range(-3, 3)).collect();
        if v.iter().any(|x| *x != 0) {
            return v;
        }
    }
}

/// Verdict of one search against the model.  Returns (signature class, detail).
/// `approx` = the index is too large to be searched exactly: the k-nearest clause is not
/// asserted; instead the reported score must be the declared distance to the CURRENT vector.
fn judge(m: &Model, label: &str, pi: usize, metric: u64, q: &[f64], k: usize, res: &[(u64, f64)], approx: bool) -> Option<(String, String)> {
    let prop = PROPS[pi];
    let eligible: BTreeMap<u64, Vec<f64>> = m
        .nodes
        .iter()
        .filter(|(_, n)| n.labels.contains(label) && n.vecs[pi].is_some())
        .map(|(i, n)| (*i, n.vecs[pi].as_ref().unwrap().iter().map(|x| *x as f64).collect()))
        .collect();
    let show = |res: &[(u64, f64)]| res.iter().map(|(i, s)| format!("{i}@{s:.4}")).collect::<Vec<_>>().join(" ");
    let ctx = || {
        format!(
            "search label {label} property {prop} metric {} q={q:?} k={k}: returned [{}]; live candidates {{{}}}",
            if metric == 0 { "cosine" } else { "l2" },
            show(res),
            eligible.iter().map(|(i, v)| format!("{i}:{v:?}@{:.4}", dist(metric, q, v))).collect::<Vec<_>>().join(", ")
        )
    };
    // 1-3: only live nodes carrying label and vector
    for (id, _) in res {
        match m.nodes.get(id) {
            None => {
                let class = if m.ever_deleted.contains(id) { "deleted_node" } else { "unknown_node" };
                return Some((format!("live_only/{class}"), format!("node {id} does not exist. {}", ctx())));
            }
            Some(n) if !n.labels.contains(label) => return Some(("live_only/label_removed".into(), format!("node {id} does not carry :{label}. {}", ctx()))),
            Some(n) if n.vecs[pi].is_none() => return Some(("live_only/vector_removed".into(), format!("node {id} has no vector at {prop}. {}", ctx()))),
            _ => {}
        }
    }
    // a returned score that fits no metric on the node's CURRENT vector betrays a stale entry
    let stale = res.iter().any(|(id, s)| {
        let v = &eligible[id];
        let c = cosine(q, v);
        let e = l2(q, v);
        (s - c).abs() > 1e-4 && (s - e).abs() > 1e-4 && (s - e * e).abs() > 1e-4
    });
    // 4: each at most once
    let mut seen = BTreeSet::new();
    for (id, _) in res {
        if !seen.insert(*id) {
            let class = if stale { "stale_vector" } else { "same_vector_twice" };
            return Some((format!("at_most_once/duplicate_id/{class}"), format!("node {id} returned twice. {}", ctx())));
        }
    }
    let scores_fit_cosine = res.iter().all(|(id, s)| (s - cosine(q, &eligible[id])).abs() <= 1e-4);
    let why = |fallback: &str| -> String {
        if stale {
            "stale_vector".to_string()
        } else if metric == 1 && scores_fit_cosine && !res.is_empty() {
            "wrong_metric".to_string()
        } else {
            fallback.to_string()
        }
    };
    // 5: ranked by the declared distance to the current vector
    let d: Vec<f64> = res.iter().map(|(id, _)| dist(metric, q, &eligible[id])).collect();
    for w in d.windows(2) {
        if w[0] > w[1] + EPS {
            return Some((format!("ranked/{}", why("rank_order")), format!("not in order of declared distance. {}", ctx())));
        }
    }
    if approx {
        // 5b: the value the list is ranked by is the declared distance to the node's current vector
        // (squared L2 is accepted for an L2 index: same ranking)
        for (id, s) in res {
            let dcur = dist(metric, q, &eligible[id]);
            let ok = (s - dcur).abs() <= 1e-4 || (metric == 1 && (s - dcur * dcur).abs() <= 1e-4);
            if !ok {
                return Some((format!("ranked/{}", why("score_not_current_distance")), format!("node {id} is listed at {s:.4}, the declared distance to its current vector is {dcur:.4}. {}", ctx())));
            }
        }
        return None;
    }
    // 6: exactly the k nearest
    let want = k.min(eligible.len());
    let mut all: Vec<f64> = eligible.values().map(|v| dist(metric, q, v)).collect();
    all.sort_by(|a, b| a.partial_cmp(b).unwrap());
    if res.len() != want {
        return Some((format!("k_nearest/{}", why(if res.len() < want { "too_few" } else { "too_many" })), format!("{} results, want {want}. {}", res.len(), ctx())));
    }
    if want > 0 {
        let kth = all[want - 1];
        if d.iter().any(|x| *x > kth + EPS) {
            return Some((format!("k_nearest/{}", why("not_k_nearest")), format!("a returned node is farther than the {want}-th nearest ({kth:.4}). {}", ctx())));
        }
    }
    None
}

/// Does node `n` currently sit in both vector indexes of label `l` (a vector under each property, each indexed)?
fn in_two_indexes(m: &Model, n: u64, l: &'static str) -> bool {
    m.idx.contains_key(&(l, 0)) && m.idx.contains_key(&(l, 1)) && m.nodes.get(&n).is_some_and(|x| x.vecs[0].is_some() && x.vecs[1].is_some())
}

impl Scenario for C29 {
    fn id(&self) -> &'static str {
        "C29"
    }
    fn runs(&self, tier: Tier) -> u64 {
        match tier {
            Tier::Quick => 2_000,
            Tier::Thorough => 60_000,
        }
    }
    fn rule(&self) -> &'static str {
        "history = <=50 (thorough <=90) events over <=~40 nodes with 0-2 of the labels {V,W} and a 2- or 3-dimensional integer-grid vector at `emb`: create (API / Cypher, float or integer list literal), vector update, overwrite with a string, property removal, label add/remove, delete (ids get reused), CREATE VECTOR INDEX per label with cosine or l2 (DDL, or API + rebuild_vector_index) at a PRNG-chosen point (may be re-declared), rebuild_vector_index, and searches with half-integer query vectors and k in 1..8 through VectorIndexManager::search, GraphStore::vector_search and CALL db.index.vector.queryNodes. Knobs: sync store or async-indexing store (indexer future polled only at drain events), dimension, allowed metrics, mode (full | insert_only = only creations and searches, so the ranking / k-nearest clauses keep running next to known liveness findings) second embedding property (1 run in 3: indexes on (V, emb2) and sometimes (W, emb2) are declared as well, so one label has two vector indexes over different properties; nodes carry an independent vector under each; vector updates / overwrites / removals and searches address either property, deletes and label removals must clear the node from every index of the label) and size class (1 run in 8: a bulk event creates 140-200, thorough up to 400, vector-bearing nodes before or after the index is declared, so the index is answered from the HNSW graph; updates / removals then address any node and k goes up to 1000 = every live point). After every search with nothing queued for the indexer the result is compared with brute force under the declared metric; while model or index hold more than 128 vectors for the label the k-nearest clause is replaced by: reported score = declared distance to the node's current vector. Non-trivial = an index exists, >=1 asserted search returned >=2 nodes, and (mode full) >=1 update/delete/label change happened after the index was declared. Distinct = hash of (knobs, event kinds, resolved ranks)."
    }
    fn real_components(&self) -> Vec<&'static str> {
        vec![
            "samyama::vector::{VectorIndex (exact path <=128 vectors; HNSW path with the live-point filter above, in the big size class), VectorIndexManager}",
            "GraphStore index maintenance (handle_index_event / apply_property_set / rebuild_vector_index / create_vector_index) and the async path (with_async_indexing + start_background_indexer future, TenantManager::new())",
            "Cypher CREATE VECTOR INDEX, CALL db.index.vector.queryNodes, SET / REMOVE / DELETE operators",
        ]
    }
    fn stub_components(&self) -> Vec<&'static str> {
        vec!["the tokio runtime that would run the background indexer: the simulator polls the future itself (kit::exec::Tasks); the indexer's auto-embed / agent branches (tokio::spawn) are never reached because the default tenant has neither configured"]
    }
    fn assumptions(&self) -> Vec<&'static str> {
        vec![
            "vectors are non-zero integer grid points in [-3,3]^d and queries non-zero half-integer grid points, so distinct declared distances differ by far more than the 1e-5 tie tolerance and f32 rounding cannot reorder them",
            "the returned score is used only to classify a violation (stale entry / wrong metric), never as a requirement",
            "an index of more than 128 vectors (model count or the index's own len()) is not 'small enough to be searched exactly': there the result may miss neighbours and may be shorter than k; it must still list only live nodes carrying label and vector, each once, in non-decreasing declared distance to their CURRENT vector, and the score it reports for a node must be that distance (1e-4; squared L2 accepted for L2)",
            "hnsw_rs seeds its layer assignment from rand 0.8 -> getrandom 0.2, which issues syscall(SYS_getrandom) and so bypasses the getrandom() shim: WHAT an HNSW-path search finds is not a function of the case. The verdict on the unchanged tree is (nothing stale can be returned); results of such searches are therefore left out of state_hash",
            "in async mode nothing is asserted while index events are queued (counted as lagging_read)",
            "an index is always declared through a path that backfills (DDL, or create_vector_index + rebuild_vector_index)",
        ]
    }
    fn required_probes(&self, _tier: Tier) -> Vec<&'static str> {
        vec![
            "search_asserted",
            "search_cypher",
            "search_manager",
            "search_store",
            "lagging_read",
            "async_drained",
            "id_reused",
            "index_cosine",
            "index_l2",
            "tie_at_k",
            "k_exceeds_candidates",
            "insert_only_run",
            "bulk_created",
            "search_hnsw_asserted",
            "search_hnsw_manager",
            "search_hnsw_store",
            "search_hnsw_cypher",
            "hnsw_search_after_vector_update",
            "hnsw_returns_updated_node",
            "hnsw_search_after_removal",
            "two_indexes_on_one_label",
            "search_emb_after_node_left_two_indexes",
            "search_emb2_after_node_left_two_indexes",
        ]
    }
    fn generate(&self, s: &mut Streams, _run_index: u64, tier: Tier) -> Case {
        let mut case = Case::new("C29");
        let k = &mut s.knobs;
        let dim = 2 + k.usize_below(2);
        let asyn = k.chance(1, 3);
        let mode = if k.chance(1, 4) { 1 } else { 0 };
        let metrics = k.below(3); // 0 both, 1 cosine only, 2 l2 only
        case.knobs.insert("dim".into(), json!(dim));
        case.knobs.insert("async".into(), json!(asyn));
        case.knobs.insert("mode".into(), json!(mode));
        case.knobs.insert("metrics".into(), json!(metrics));
        let n = k.short_len(4, if tier == Tier::Thorough { 90 } else { 50 });
        let idx_at = k.usize_below(n.min(12) + 1);
        let r = &mut s.workload;
        let metric = |r: &mut Rng| match metrics {
            1 => 0,
            2 => 1,
            _ => r.below(2),
        };
        // Index (re)construction is by far the most expensive step (VectorIndex::new sizes its HNSW
        // for 100k elements: tens of ms), so its positions are drawn once per run instead of per event.
        let idx2_at = if k.chance(1, 3) { k.usize_below(n + 1) } else { usize::MAX };
        let redeclare_at = if k.chance(1, 8) { k.usize_below(n + 1) } else { usize::MAX };
        let rebuild_at = if mode == 0 && k.chance(1, 8) { k.usize_below(n + 1) } else { usize::MAX };
        // Size class (drawn last: the other runs stay the histories they always were): one run in
        // eight starts from 140..200 (thorough: ..400) vector-bearing nodes created in one go, so the
        // label's index is beyond the exact-search size and is answered from the HNSW graph.
        let big = k.chance(1, 8);
        let bulk_span = if tier == Tier::Thorough && k.chance(1, 4) { 261 } else { 61 };
        let bulk_n = 140 + k.usize_below(bulk_span);
        let bulk_at = k.usize_below(n.min(12) + 1);
        let bulk_labels = if k.chance(2, 3) { 1 } else { 3 };
        let n = if big { n.max(16) } else { n };
        case.knobs.insert("big".into(), json!(big));
        // Second embedding property (drawn after everything else: runs without it stay the histories
        // they always were): one run in three also declares an index on (V, emb2) -- and sometimes on
        // (W, emb2) -- so a label has two vector indexes over different properties; nodes then carry
        // an independent vector under each, and updates / removals / searches address either.
        let props2 = k.chance(1, 3);
        let idx3_at = if props2 { k.usize_below(n.min(12) + 1) } else { usize::MAX };
        let idx4_at = if props2 && k.chance(1, 3) { k.usize_below(n + 1) } else { usize::MAX };
        case.knobs.insert("props2".into(), json!(props2));
        let nmax: u64 = if big { 4096 } else { 64 };
        let search = |r: &mut Rng| {
            let q: Vec<i64> = loop {
                let v: Vec<i64> = (0..dim).map(|_| r.range(-6, 6)).collect();
                if v.iter().any(|x| *x != 0) {
                    break v;
                }
            };
            let kmax = if big {
                // up to "everything": k beyond the index size asks the HNSW graph for every live point
                [7, 40, 100, 1000][r.usize_below(4)]
            } else if r.chance(1, 6) {
                40
            } else {
                7
            };
            let mut ev = json!({"op":"search","label":r.below(5) / 4,"q":q,"k":1 + r.below(kmax),"via":r.below(3),"drain":r.chance(2,3)});
            if props2 {
                ev["prop"] = json!(r.below(2));
            }
            ev
        };
        for i in 0..n {
            if big && i == bulk_at {
                let vecs: Vec<Vec<i64>> = (0..bulk_n).map(|_| gen_vec(r, dim)).collect();
                case.events.push(json!({"op":"bulk","labels":bulk_labels,"vecs":vecs}));
            }
            if i == idx_at {
                case.events.push(json!({"op":"create_index","label":0,"metric":metric(r),"via":r.below(2)}));
            }
            if i == idx2_at {
                case.events.push(json!({"op":"create_index","label":1,"metric":metric(r),"via":r.below(2)}));
            }
            if i == idx3_at {
                case.events.push(json!({"op":"create_index","label":0,"prop":1,"metric":metric(r),"via":r.below(2)}));
            }
            if i == idx4_at {
                case.events.push(json!({"op":"create_index","label":1,"prop":1,"metric":metric(r),"via":r.below(2)}));
            }
            if i == redeclare_at {
                case.events.push(json!({"op":"create_index","label":r.below(2),"metric":metric(r),"via":r.below(2)}));
            }
            if i == rebuild_at {
                case.events.push(json!({"op":"rebuild"}));
            }
            let labels = match r.below(8) {
                0 => 0,
                1 | 2 => 3,
                3 => 2,
                _ => 1,
            };
            let create = |r: &mut Rng| {
                let mut ev = json!({"op":"create","labels":labels,"vec":if mode == 1 || r.chance(9,10) { json!(gen_vec(r, dim)) } else { Value::Null },"via":r.below(2),"floats":r.chance(1,2)});
                if props2 && r.chance(4, 5) {
                    ev["vec2"] = json!(gen_vec(r, dim));
                }
                ev
            };
            // which embedding property a vector update / overwrite / removal addresses
            let prop = |r: &mut Rng| if props2 { r.below(2) } else { 0 };
            let ev = if mode == 1 {
                match r.weighted(&[10, 9, 1]) {
                    0 => create(r),
                    1 => search(r),
                    _ => json!({"op":"drain"}),
                }
            } else {
                let weights: [u32; 11] = if big { [4, 16, 12, 2, 2, 3, 4, 6, 0, 0, 3] } else { [12, 14, 7, 2, 2, 4, 4, 5, 0, 0, 3] };
                match r.weighted(&weights) {
                    0 => create(r),
                    1 => search(r),
                    2 => json!({"op":"set_vec","n":r.below(nmax),"vec":gen_vec(r, dim),"via":r.below(2),"floats":r.chance(1,2),"prop":prop(r)}),
                    3 => json!({"op":"set_nonvec","n":r.below(nmax),"via":r.below(2),"prop":prop(r)}),
                    4 => json!({"op":"rm_vec","n":r.below(nmax),"via":r.below(2),"prop":prop(r)}),
                    5 => json!({"op":"add_label","n":r.below(nmax),"label":r.below(2),"via":r.below(2)}),
                    6 => json!({"op":"rm_label","n":r.below(nmax),"label":r.below(2),"via":r.below(2)}),
                    7 => json!({"op":"delete","n":r.below(nmax),"via":r.below(2)}),
                    8 => json!({"op":"create_index","label":r.below(2),"metric":metric(r),"via":r.below(2)}),
                    9 => json!({"op":"rebuild"}),
                    _ => json!({"op":"drain"}),
                }
            };
            case.events.push(ev);
        }
        case
    }
    fn shrink_event(&self, ev: &Value) -> Vec<Value> {
        let mut out = Vec::new();
        if ev.get("via").and_then(|v| v.as_u64()).unwrap_or(0) != 0 {
            let mut e = ev.clone();
            e["via"] = json!(0);
            out.push(e);
        }
        if op(ev) == "search" && u(ev, "k") > 3 && u(ev, "k") <= 40 {
            let mut e = ev.clone();
            e["k"] = json!(3);
            out.push(e);
        }
        if op(ev) == "bulk" {
            // fewer points, but still more than the exact-search bound
            if let Some(v) = ev["vecs"].as_array() {
                if v.len() > EXACT_MAX + 4 {
                    let mut e = ev.clone();
                    e["vecs"] = json!(v[..EXACT_MAX + 4].to_vec());
                    out.push(e);
                }
            }
            if u(ev, "labels") == 3 {
                let mut e = ev.clone();
                e["labels"] = json!(1);
                out.push(e);
            }
        }
        if op(ev) == "create" && u(ev, "labels") == 3 {
            let mut e = ev.clone();
            e["labels"] = json!(1);
            out.push(e);
        }
        out
    }
    fn execute(&self, case: &Case) -> Outcome {
        let mut o = Outcome::new();
        let dim = case.knob_u64("dim", 2) as usize;
        let asyn = case.knob_bool("async", false);
        let mode = case.knob_u64("mode", 0);
        if mode == 1 {
            o.probe("insert_only_run");
        }
        let engine = QueryEngine::new();
        let mut tasks = Tasks::new();
        let mut g = if asyn {
            let (store, rx) = GraphStore::with_async_indexing();
            let fut = GraphStore::start_background_indexer(rx, Arc::clone(&store.vector_index), Arc::clone(&store.property_index), Arc::new(TenantManager::new()));
            tasks.spawn("indexer", fut);
            // first poll parks the indexer on the empty queue
            tasks.run_until_stalled(|_| 0, 4);
            store
        } else {
            GraphStore::new()
        };
        let mut m = Model::default();
        let mut pending = 0u64;
        let mut sig_parts: Vec<String> = vec![format!("{:?}", case.knobs)];
        let mut hash = 0u64;
        let mut asserted_multi = false;
        let mut change_after_index = false;
        // nodes whose vector was replaced / that lost label, vector or life while an index existed
        // (only to report how often an HNSW-path search comes after such a change)
        let mut updated: BTreeSet<u64> = BTreeSet::new();
        let mut removals_while_big = false;
        let eligible_count = |m: &Model, l: &str, pi: usize| m.nodes.values().filter(|n| n.labels.contains(l) && n.vecs[pi].is_some()).count();
        // nodes that sat in two indexes of one label (a vector under both properties, both indexed) when
        // they were deleted / lost that label: (label, node) -> asserted searches per property are counted
        let mut left_two_indexes: BTreeSet<&'static str> = BTreeSet::new();
        macro_rules! cy {
            ($q:expr) => {{
                let q: String = $q;
                match catch_unwind(AssertUnwindSafe(|| engine.execute_mut(&q, &mut g, "default").map(|_| ()).map_err(|e| e.to_string()))) {
                    Ok(Ok(())) => true,
                    Ok(Err(e)) => {
                        eprintln!("C29 harness: {q}: {e}");
                        o.probe("harness_cypher_write_failed");
                        false
                    }
                    Err(p) => {
                        eprintln!("C29 harness: {q}: panic {}", panic_text(p));
                        o.probe("harness_cypher_write_failed");
                        false
                    }
                }
            }};
        }
        'run: for (step, ev) in case.events.iter().enumerate() {
            let kind = op(ev).to_string();
            let via = u(ev, "via");
            let live: Vec<u64> = m.nodes.keys().cloned().collect();
            let mut resolved = String::new();
            let had_index = !m.idx.is_empty();
            let big_before = m.idx.keys().any(|(l, pi)| eligible_count(&m, l, *pi) > EXACT_MAX);
            let pi = (u(ev, "prop") % 2) as usize;
            let prop = PROPS[pi];
            match kind.as_str() {
                "create" => {
                    let bits = u(ev, "labels");
                    let labels: Vec<&'static str> = LABELS.iter().enumerate().filter(|(i, _)| bits & (1 << i) != 0).map(|(_, l)| *l).collect();
                    let vec: Option<Vec<i64>> = ev["vec"].as_array().map(|a| a.iter().map(|x| x.as_i64().unwrap_or(1)).collect());
                    let vec2: Option<Vec<i64>> = ev["vec2"].as_array().map(|a| a.iter().map(|x| x.as_i64().unwrap_or(1)).collect());
                    let code = m.next_code;
                    m.next_code += 1;
                    let id = if via == 0 {
                        let mut pm = PropertyMap::new();
                        pm.insert("id".to_string(), PropertyValue::Integer(code));
                        if let Some(v) = &vec {
                            pm.insert("emb".to_string(), PropertyValue::Vector(v.iter().map(|x| *x as f32).collect()));
                        }
                        if let Some(v) = &vec2 {
                            pm.insert("emb2".to_string(), PropertyValue::Vector(v.iter().map(|x| *x as f32).collect()));
                        }
                        g.create_node_with_properties("default", labels.iter().map(|l| Label::new(*l)).collect(), pm).as_u64()
                    } else {
                        let lab: String = labels.iter().map(|l| format!(":{l}")).collect();
                        let floats = ev["floats"].as_bool().unwrap_or(true);
                        let mut embp = vec.as_ref().map(|v| format!(", emb: {}", vec_lit(v, floats))).unwrap_or_default();
                        if let Some(v) = &vec2 {
                            embp.push_str(&format!(", emb2: {}", vec_lit(v, floats)));
                        }
                        if !cy!(format!("CREATE (n{lab} {{id: {code}{embp}}})")) {
                            break 'run;
                        }
                        let new: Vec<u64> = g.all_nodes().iter().map(|n| n.id.as_u64()).filter(|i| !m.nodes.contains_key(i)).collect();
                        if new.len() != 1 {
                            o.probe("harness_cypher_write_failed");
                            break 'run;
                        }
                        new[0]
                    };
                    if m.ever_deleted.contains(&id) {
                        o.probe("id_reused");
                    }
                    let both = vec.is_some() && vec2.is_some();
                    m.nodes.insert(id, MNode { labels: labels.iter().cloned().collect(), vecs: [vec, vec2], code });
                    pending += 1;
                    resolved = format!("{bits}:{via}{}", if both { ":2" } else { "" });
                }
                "bulk" => {
                    // many vector-bearing nodes at once (API path: the cheap one)
                    let bits = u(ev, "labels");
                    let labels: Vec<&'static str> = LABELS.iter().enumerate().filter(|(i, _)| bits & (1 << i) != 0).map(|(_, l)| *l).collect();
                    let Some(vecs) = ev["vecs"].as_array() else { continue };
                    for v in vecs {
                        let mut vec: Vec<i64> = v.as_array().map(|a| a.iter().map(|x| x.as_i64().unwrap_or(1)).collect()).unwrap_or_default();
                        vec.resize(dim, 1);
                        if vec.iter().all(|x| *x == 0) {
                            vec[0] = 1;
                        }
                        let code = m.next_code;
                        m.next_code += 1;
                        let mut pm = PropertyMap::new();
                        pm.insert("id".to_string(), PropertyValue::Integer(code));
                        pm.insert("emb".to_string(), PropertyValue::Vector(vec.iter().map(|x| *x as f32).collect()));
                        let id = g.create_node_with_properties("default", labels.iter().map(|l| Label::new(*l)).collect(), pm).as_u64();
                        if m.nodes.contains_key(&id) {
                            o.probe("harness_api_failed");
                            break 'run;
                        }
                        if m.ever_deleted.contains(&id) {
                            o.probe("id_reused");
                        }
                        m.nodes.insert(id, MNode { labels: labels.iter().cloned().collect(), vecs: [Some(vec), None], code });
                        pending += 1;
                    }
                    o.probe("bulk_created");
                    resolved = format!("{bits}:{}", vecs.len());
                }
                "set_vec" | "set_nonvec" | "rm_vec" => {
                    let Some(n) = pick(&live, u(ev, "n")) else { continue };
                    let code = m.nodes[&n].code;
                    let id = NodeId::new(n);
                    match kind.as_str() {
                        "set_vec" => {
                            let v: Vec<i64> = ev["vec"].as_array().map(|a| a.iter().map(|x| x.as_i64().unwrap_or(1)).collect()).unwrap_or_else(|| vec![1; dim]);
                            if via == 0 {
                                if g.set_node_property("default", id, prop, PropertyValue::Vector(v.iter().map(|x| *x as f32).collect())).is_err() {
                                    o.probe("harness_api_failed");
                                    break 'run;
                                }
                            } else if !cy!(format!("MATCH (n {{id: {code}}}) SET n.{prop} = {}", vec_lit(&v, ev["floats"].as_bool().unwrap_or(true)))) {
                                break 'run;
                            }
                            if had_index && m.nodes[&n].vecs[pi].is_some() {
                                updated.insert(n);
                            }
                            m.nodes.get_mut(&n).unwrap().vecs[pi] = Some(v);
                            pending += 1;
                        }
                        "set_nonvec" => {
                            if via == 0 {
                                if g.set_node_property("default", id, prop, PropertyValue::String("none".into())).is_err() {
                                    o.probe("harness_api_failed");
                                    break 'run;
                                }
                            } else if !cy!(format!("MATCH (n {{id: {code}}}) SET n.{prop} = 'none'")) {
                                break 'run;
                            }
                            m.nodes.get_mut(&n).unwrap().vecs[pi] = None;
                            pending += 1;
                        }
                        _ => {
                            if via == 0 {
                                g.remove_node_property(id, prop);
                            } else if !cy!(format!("MATCH (n {{id: {code}}}) REMOVE n.{prop}")) {
                                break 'run;
                            }
                            m.nodes.get_mut(&n).unwrap().vecs[pi] = None;
                            // (no index event on the pinned tree; counted so that a store that does
                            // queue one is not asserted before the indexer saw it)
                            pending += 1;
                        }
                    }
                    change_after_index |= had_index;
                    if kind != "set_vec" && big_before {
                        removals_while_big = true;
                    }
                    resolved = format!("{}:{via}:{pi}", live.iter().position(|x| *x == n).unwrap());
                }
                "add_label" | "rm_label" => {
                    let Some(n) = pick(&live, u(ev, "n")) else { continue };
                    let code = m.nodes[&n].code;
                    let l = LABELS[(u(ev, "label") % 2) as usize];
                    let id = NodeId::new(n);
                    if kind == "add_label" {
                        if m.nodes[&n].labels.contains(l) {
                            continue; // re-adding a label the node carries says nothing new
                        }
                        if via == 0 {
                            if g.add_label_to_node("default", id, l).is_err() {
                                o.probe("harness_api_failed");
                                break 'run;
                            }
                        } else if !cy!(format!("MATCH (n {{id: {code}}}) SET n:{l}")) {
                            break 'run;
                        }
                        m.nodes.get_mut(&n).unwrap().labels.insert(l);
                        pending += 1;
                    } else {
                        if via == 0 {
                            if g.remove_label_from_node(id, &Label::new(l)).is_err() {
                                o.probe("harness_api_failed");
                                break 'run;
                            }
                        } else if !cy!(format!("MATCH (n {{id: {code}}}) REMOVE n:{l}")) {
                            break 'run;
                        }
                        if m.nodes[&n].labels.contains(l) && in_two_indexes(&m, n, l) {
                            left_two_indexes.insert(l);
                        }
                        m.nodes.get_mut(&n).unwrap().labels.remove(l);
                        pending += 1;
                        if big_before {
                            removals_while_big = true;
                        }
                    }
                    change_after_index |= had_index;
                    resolved = format!("{}:{l}:{via}", live.iter().position(|x| *x == n).unwrap());
                }
                "delete" => {
                    let Some(n) = pick(&live, u(ev, "n")) else { continue };
                    let code = m.nodes[&n].code;
                    if via == 0 {
                        if g.delete_node("default", NodeId::new(n)).is_err() {
                            o.probe("harness_api_failed");
                            break 'run;
                        }
                    } else if !cy!(format!("MATCH (n {{id: {code}}}) DETACH DELETE n")) {
                        break 'run;
                    }
                    for l in LABELS {
                        if m.nodes[&n].labels.contains(l) && in_two_indexes(&m, n, l) {
                            left_two_indexes.insert(l);
                        }
                    }
                    m.nodes.remove(&n);
                    m.ever_deleted.insert(n);
                    updated.remove(&n);
                    if big_before {
                        removals_while_big = true;
                    }
                    pending += 1;
                    change_after_index |= had_index;
                    resolved = format!("{}:{via}", live.iter().position(|x| *x == n).unwrap());
                }
                "create_index" => {
                    let l = LABELS[(u(ev, "label") % 2) as usize];
                    let metric = u(ev, "metric") % 2;
                    let name = ["cosine", "l2"][metric as usize];
                    if via == 0 {
                        let iname = if pi == 0 { format!("vi_{l}") } else { format!("vi_{l}_{prop}") };
                        if !cy!(format!("CREATE VECTOR INDEX {iname} FOR (n:{l}) ON (n.{prop}) OPTIONS {{dimensions: {dim}, similarity: '{name}'}}")) {
                            break 'run;
                        }
                    } else {
                        let dm = if metric == 0 { DistanceMetric::Cosine } else { DistanceMetric::L2 };
                        if g.create_vector_index(l, prop, dim, dm).is_err() {
                            o.probe("harness_api_failed");
                            break 'run;
                        }
                        g.rebuild_vector_index();
                    }
                    m.idx.insert((l, pi), metric);
                    o.probe(&format!("index_{name}"));
                    if m.idx.contains_key(&(l, 1 - pi)) {
                        o.probe("two_indexes_on_one_label");
                    }
                    resolved = format!("{l}:{prop}:{name}:{via}");
                }
                "rebuild" => {
                    if m.idx.is_empty() {
                        continue;
                    }
                    g.rebuild_vector_index();
                    o.probe("explicit_rebuild");
                }
                "drain" => {
                    if !asyn {
                        continue;
                    }
                    tasks.run_until_stalled(|_| 0, 64);
                    if pending > 0 {
                        o.probe("async_drained");
                    }
                    pending = 0;
                }
                "search" => {
                    let l = LABELS[(u(ev, "label") % 2) as usize];
                    let Some(metric) = m.idx.get(&(l, pi)).cloned() else { continue };
                    if asyn && pending > 0 && ev["drain"].as_bool().unwrap_or(false) {
                        tasks.run_until_stalled(|_| 0, 64);
                        o.probe("async_drained");
                        pending = 0;
                    }
                    let qi: Vec<i64> = ev["q"].as_array().map(|a| a.iter().map(|x| x.as_i64().unwrap_or(1)).collect()).unwrap_or_else(|| vec![1; dim]);
                    let mut qi = qi;
                    qi.resize(dim, 1);
                    let q: Vec<f64> = qi.iter().map(|x| *x as f64 / 2.0).collect();
                    let qf: Vec<f32> = q.iter().map(|x| *x as f32).collect();
                    let k = u(ev, "k").max(1) as usize;
                    let res: Result<Result<Vec<(u64, f64)>, String>, String> = match via {
                        0 => {
                            o.probe("search_manager");
                            catch_unwind(AssertUnwindSafe(|| g.vector_index.search(l, prop, &qf, k).map(|v| v.into_iter().map(|(i, s)| (i.as_u64(), s as f64)).collect()).map_err(|e| e.to_string()))).map_err(panic_text)
                        }
                        1 => {
                            o.probe("search_store");
                            catch_unwind(AssertUnwindSafe(|| g.vector_search(l, prop, &qf, k).map(|v| v.into_iter().map(|(i, s)| (i.as_u64(), s as f64)).collect()).map_err(|e| e.to_string()))).map_err(panic_text)
                        }
                        _ => {
                            o.probe("search_cypher");
                            let lit = format!("[{}]", q.iter().map(|x| format!("{x:?}")).collect::<Vec<_>>().join(", "));
                            let qs = format!("CALL db.index.vector.queryNodes('{l}', '{prop}', {lit}, {k}) YIELD node, score RETURN node, score");
                            catch_unwind(AssertUnwindSafe(|| {
                                engine.execute(&qs, &g).map_err(|e| e.to_string()).map(|b| {
                                    b.records
                                        .iter()
                                        .map(|r| {
                                            let id = match r.get("node") {
                                                Some(QV::Node(id, _)) | Some(QV::NodeRef(id)) => id.as_u64(),
                                                _ => u64::MAX,
                                            };
                                            let s = match r.get("score") {
                                                Some(QV::Property(PropertyValue::Float(f))) => *f,
                                                _ => f64::NAN,
                                            };
                                            (id, s)
                                        })
                                        .collect()
                                })
                            }))
                            .map_err(panic_text)
                        }
                    };
                    let how = ["manager", "store", "cypher"][via as usize % 3];
                    resolved = format!("{l}:{prop}:{how}:{k}");
                    o.steps += 1;
                    if asyn && pending > 0 {
                        o.probe("lagging_read");
                        // nothing is promised while index events are queued, except not to crash
                        if let Err(p) = &res {
                            o.violate(Violation::new(format!("C29/panic/search_{how}/lagging"), format!("panic {p}"), step));
                            break 'run;
                        }
                    } else {
                        match res {
                            Err(p) => {
                                o.violate(Violation::new(format!("C29/panic/search_{how}/drained"), format!("panic {p}"), step));
                                break 'run;
                            }
                            Ok(Err(e)) => {
                                // the documented failure of the Cypher path: a dead id cannot be materialised
                                let class = if e.contains("not found") { "live_only/deleted_node" } else { "other" };
                                o.violate(Violation::new(format!("C29/search_fails/{class}/{how}"), format!("search failed: {e}"), step));
                                break 'run;
                            }
                            Ok(Ok(rows)) => {
                                // Is this index searched exactly?  Both the model's and the index's own
                                // count must say so; otherwise only the clauses that hold for every index apply.
                                let held = g.vector_index.get_index(l, prop).map(|i| i.read().unwrap().len()).unwrap_or(0);
                                let approx = eligible_count(&m, l, pi) > EXACT_MAX || held > EXACT_MAX;
                                if approx {
                                    // the HNSW graph draws its layer assignment from thread_rng: what it
                                    // finds is not a function of the case, only the verdict is
                                    hash = hash_str(&format!("{hash}|approx"));
                                    o.probe("search_hnsw_asserted");
                                    o.probe(&format!("search_hnsw_{how}"));
                                    if !updated.is_empty() {
                                        o.probe("hnsw_search_after_vector_update");
                                    }
                                    if rows.iter().any(|(i, _)| updated.contains(i)) {
                                        o.probe("hnsw_returns_updated_node");
                                    }
                                    if removals_while_big {
                                        o.probe("hnsw_search_after_removal");
                                    }
                                    if rows.len() < k.min(eligible_count(&m, l, pi)) {
                                        o.probe("hnsw_fewer_than_k");
                                    }
                                } else {
                                    hash = hash_str(&format!("{hash}|{rows:?}"));
                                }
                                o.probe("search_asserted");
                                if m.idx.contains_key(&(l, 1 - pi)) {
                                    o.probe(&format!("search_{prop}_of_two_indexes"));
                                    if left_two_indexes.contains(l) {
                                        o.probe(&format!("search_{prop}_after_node_left_two_indexes"));
                                    }
                                }
                                let cand = eligible_count(&m, l, pi);
                                if k > cand {
                                    o.probe("k_exceeds_candidates");
                                }
                                if rows.len() >= 2 {
                                    asserted_multi = true;
                                }
                                // tie at the cut-off (informational)
                                {
                                    let mut all: Vec<f64> = m.nodes.values().filter(|n| n.labels.contains(l) && n.vecs[pi].is_some()).map(|n| dist(metric, &q, &n.vecs[pi].as_ref().unwrap().iter().map(|x| *x as f64).collect::<Vec<_>>())).collect();
                                    all.sort_by(|a, b| a.partial_cmp(b).unwrap());
                                    if k < all.len() && (all[k] - all[k - 1]).abs() <= EPS {
                                        o.probe("tie_at_k");
                                    }
                                }
                                if let Some((class, detail)) = judge(&m, l, pi, metric, &q, k, &rows, approx) {
                                    let path = if approx { "hnsw_" } else { "" };
                                    o.violate(Violation::new(format!("C29/{class}/{path}{how}"), detail, step));
                                    break 'run;
                                }
                            }
                        }
                    }
                }
                _ => continue,
            }
            sig_parts.push(format!("{kind}{resolved}"));
            o.steps += 1;
        }
        drop(g);
        // the sender is gone: the indexer future must now run to completion
        if asyn {
            tasks.run_until_stalled(|_| 0, 64);
            if !tasks.all_done() {
                o.probe("indexer_did_not_finish");
            }
        }
        o.nontrivial = !m.idx.is_empty() && asserted_multi && (mode == 1 || change_after_index);
        o.class_key = hash_str(&sig_parts.join(","));
        o.state_hash = hash_str(&format!("{hash}|{:?}", m.nodes.keys().collect::<Vec<_>>()));
        o
    }
}
