//! C06 — graph store read views always agree with the graph that was built.
//!
//! Sim: an API-level history (creates, deletes, property/label changes, stub loads) with
//! the store's own maintenance (`compact_adjacency`, `compact_adjacency_if_needed`,
//! `finish_bulk_load`) injected as events at PRNG-chosen points.  After *every* step the
//! whole public read API is compared with a plain reference model.

use crate::kit::core::*;
use crate::kit::model::*;
use crate::kit::rng::Streams;
use samyama::graph::{EdgeId, EdgeType, GraphStore, Label, NodeId, PropertyMap, PropertyValue};
use serde_json::{json, Value};
use std::collections::{BTreeMap, BTreeSet};

pub struct C06;

const LABELS: [&str; 2] = ["A", "B"];
const TYPES: [&str; 2] = ["T", "U"];
const KEYS: [&str; 2] = ["k", "m"];

#[derive(Clone, Debug, Default)]
struct MNode {
    labels: BTreeSet<String>,
    props: BTreeMap<String, String>, // canonical values
}

#[derive(Clone, Debug)]
struct MEdge {
    src: u64,
    dst: u64,
    ty: String,
    props: BTreeMap<String, String>,
}

#[derive(Default)]
struct Model {
    nodes: BTreeMap<u64, MNode>,
    edges: BTreeMap<u64, MEdge>,
    max_node: u64,
    max_edge: u64,
    pending_stub: bool,
    /// edge ids that were alive at a compaction (now in the frozen tier) and deleted since
    ghosts: BTreeSet<u64>,
    frozen_alive: BTreeSet<u64>,
    ever_deleted_edge_ids: BTreeSet<u64>,
    ever_deleted_node_ids: BTreeSet<u64>,
    compactions_with_edges: u64,
}

impl Model {
    fn live_nodes(&self) -> Vec<u64> {
        self.nodes.keys().cloned().collect()
    }
    fn live_edges(&self) -> Vec<u64> {
        self.edges.keys().cloned().collect()
    }
    fn del_edge(&mut self, e: u64) {
        self.edges.remove(&e);
        self.ever_deleted_edge_ids.insert(e);
        if self.frozen_alive.remove(&e) {
            self.ghosts.insert(e);
        }
    }
    fn on_compact(&mut self) {
        let buffered: Vec<u64> = self.edges.keys().filter(|e| !self.frozen_alive.contains(e)).cloned().collect();
        if !buffered.is_empty() {
            self.compactions_with_edges += 1;
        }
        for e in buffered {
            self.frozen_alive.insert(e);
        }
    }
}

fn gen_event(r: &mut crate::kit::rng::Rng, allow_stub: bool) -> Value {
    let w: [u32; 14] = [14, 16, 10, 6, 4, 4, 6, 3, 4, 7, 3, 2, if allow_stub { 3 } else { 0 }, if allow_stub { 4 } else { 0 }];
    match r.weighted(&w) {
        0 => {
            let variant = r.below(3);
            let nl = r.below(3);
            let labels: Vec<usize> = match nl {
                0 => vec![],
                1 => vec![r.usize_below(2)],
                _ => vec![0, 1],
            };
            let mut props = serde_json::Map::new();
            if variant == 1 {
                for k in KEYS {
                    if r.chance(1, 2) {
                        props.insert(k.to_string(), gen_small_value(r));
                    }
                }
            }
            json!({"op":"create_node","variant":variant,"labels":labels,"props":props})
        }
        1 => {
            let mut props = serde_json::Map::new();
            let variant = r.below(2);
            if variant == 1 {
                for k in KEYS {
                    if r.chance(1, 2) {
                        props.insert(k.to_string(), gen_small_value(r));
                    }
                }
            }
            json!({"op":"create_edge","s":r.below(64),"t":r.below(64),"type":r.below(2),"variant":variant,"props":props})
        }
        2 => json!({"op":"delete_edge","e":r.below(64)}),
        3 => json!({"op":"delete_node","n":r.below(64)}),
        4 => json!({"op":"add_label","n":r.below(64),"label":r.below(2)}),
        5 => json!({"op":"remove_label","n":r.below(64),"label":r.below(2)}),
        6 => json!({"op":"set_prop","n":r.below(64),"key":r.below(2),"val":gen_small_value(r)}),
        7 => json!({"op":"set_col_prop","n":r.below(64),"key":r.below(2),"val":gen_small_value(r)}),
        8 => json!({"op":"remove_prop","n":r.below(64),"key":r.below(2)}),
        9 => json!({"op":"compact"}),
        10 => json!({"op":"compact_if_needed","th":r.below(4)}),
        11 => json!({"op":"finish_bulk_load"}),
        12 => json!({"op":"create_node_stub","label":r.below(2)}),
        _ => json!({"op":"create_edge_stub","s":r.below(64),"t":r.below(64),"type":r.below(2)}),
    }
}

fn props_from(v: &Value) -> (PropertyMap, BTreeMap<String, String>) {
    let mut pm = PropertyMap::new();
    let mut bm = BTreeMap::new();
    if let Some(o) = v.as_object() {
        for (k, x) in o {
            let pv = pv_from_json(x);
            bm.insert(k.clone(), pv_canon(&pv));
            pm.insert(k.clone(), pv);
        }
    }
    (pm, bm)
}

fn pick(list: &[u64], i: u64) -> Option<u64> {
    if list.is_empty() {
        None
    } else {
        Some(list[(i as usize) % list.len()])
    }
}

fn canon_props(m: &PropertyMap) -> BTreeMap<String, String> {
    m.iter().filter(|(_, v)| !v.is_null()).map(|(k, v)| (k.clone(), pv_canon(v))).collect()
}

struct Ctx<'a> {
    m: &'a Model,
    g: &'a GraphStore,
    step: usize,
    last_op: String,
    out: Vec<Violation>,
}

impl<'a> Ctx<'a> {
    fn fail(&mut self, view: &str, class: &str, detail: String) {
        if self.out.len() < 6 {
            self.out.push(Violation::new(
                format!("C06/{view}/{class}"),
                format!("after {} (step {}): {}", self.last_op, self.step, detail),
                self.step,
            ));
        }
    }
    /// state class of a discrepancy in a set of edge ids
    fn class_of(&self, got: &BTreeMap<u64, u32>, want: &BTreeMap<u64, u32>) -> &'static str {
        let mut ids: BTreeSet<u64> = BTreeSet::new();
        for (k, v) in got {
            if want.get(k) != Some(v) {
                ids.insert(*k);
            }
        }
        for (k, v) in want {
            if got.get(k) != Some(v) {
                ids.insert(*k);
            }
        }
        if !ids.is_empty() && ids.iter().all(|e| self.m.ghosts.contains(e)) {
            "ghost_of_frozen_deleted_edge"
        } else {
            "other"
        }
    }
}

fn multiset(xs: impl IntoIterator<Item = u64>) -> BTreeMap<u64, u32> {
    let mut m = BTreeMap::new();
    for x in xs {
        *m.entry(x).or_insert(0) += 1;
    }
    m
}

fn check_all(c: &mut Ctx) {
    let m = c.m;
    let g = c.g;
    // ---- nodes
    for id in 1..=m.max_node + 1 {
        let nid = NodeId::new(id);
        let real = g.get_node(nid);
        match (m.nodes.get(&id), real) {
            (None, None) => {}
            (Some(_), None) => c.fail("get_node", "missing", format!("node {id} is live in the model, get_node returns None")),
            (None, Some(_)) => c.fail("get_node", "resurrected", format!("node {id} was deleted/never created, get_node returns it")),
            (Some(mn), Some(rn)) => {
                let rl: BTreeSet<String> = rn.labels.iter().map(|l| l.as_str().to_string()).collect();
                if rl != mn.labels {
                    c.fail("node_labels", "other", format!("node {id} labels {:?} want {:?}", rl, mn.labels));
                }
                let full = canon_props(&g.node_properties_full(nid));
                if full != mn.props {
                    let class = if m.ever_deleted_node_ids.contains(&id) { "reused_id" } else { "other" };
                    c.fail("node_properties_full", class, format!("node {id} props {:?} want {:?}", full, mn.props));
                }
                let merged = canon_props(&g.node_properties_merged(nid));
                if merged != mn.props {
                    c.fail("node_properties_merged", "other", format!("node {id} props {:?} want {:?}", merged, mn.props));
                }
                if rn.id != nid {
                    c.fail("get_node", "wrong_id", format!("node {id} carries id {}", rn.id.as_u64()));
                }
            }
        }
        if g.has_node(nid) != m.nodes.contains_key(&id) {
            c.fail("has_node", "other", format!("node {id} has_node={}", g.has_node(nid)));
        }
    }
    // ---- edges by id
    for id in 1..=m.max_edge + 1 {
        let eid = EdgeId::new(id);
        let me = m.edges.get(&id);
        let ge = g.get_edge(eid);
        let gv = g.get_edge_view(eid);
        match (me, &ge) {
            (None, None) => {}
            (Some(_), None) => c.fail("get_edge", "missing", format!("edge {id} live in model, get_edge None")),
            (None, Some(_)) => c.fail("get_edge", "resurrected", format!("edge {id} deleted in model, get_edge returns it")),
            (Some(x), Some(e)) => {
                if e.source.as_u64() != x.src || e.target.as_u64() != x.dst || e.edge_type.as_str() != x.ty {
                    c.fail("get_edge", "wrong_shape", format!("edge {id} is {}-[{}]->{} want {}-[{}]->{}", e.source.as_u64(), e.edge_type.as_str(), e.target.as_u64(), x.src, x.ty, x.dst));
                }
                let p = canon_props(&e.properties);
                if p != x.props {
                    let class = if m.ever_deleted_edge_ids.contains(&id) { "reused_id" } else { "other" };
                    c.fail("edge_properties", class, format!("edge {id} props {:?} want {:?}", p, x.props));
                }
                let p2 = g.get_edge_properties(eid).map(canon_props).unwrap_or_default();
                if p2 != x.props {
                    c.fail("get_edge_properties", "other", format!("edge {id} props {:?} want {:?}", p2, x.props));
                }
            }
        }
        match (me, &gv) {
            (None, None) => {}
            (Some(x), Some(v)) => {
                if v.source.as_u64() != x.src || v.target.as_u64() != x.dst || v.edge_type.as_str() != x.ty {
                    c.fail("get_edge_view", "wrong_shape", format!("edge {id} view mismatch"));
                }
            }
            _ => c.fail("get_edge_view", "presence", format!("edge {id} view presence {} want {}", gv.is_some(), me.is_some())),
        }
        if g.has_edge(eid) != me.is_some() {
            c.fail("has_edge", "other", format!("edge {id} has_edge={}", g.has_edge(eid)));
        }
        if let Some(x) = me {
            // no dangling
            if !m.nodes.contains_key(&x.src) || !m.nodes.contains_key(&x.dst) {
                c.fail("model", "dangling_in_model", format!("harness bug: model edge {id} dangles"));
            }
        }
    }
    // ---- adjacency per node id (also dead ids: must be empty)
    let type_ids: Vec<Option<u16>> = TYPES.iter().map(|t| g.edge_type_id(&EdgeType::new(*t))).collect();
    for id in 1..=m.max_node + 1 {
        let nid = NodeId::new(id);
        for dir in 0..2 {
            let want_all: Vec<(u64, u64, String)> = m
                .edges
                .iter()
                .filter(|(_, e)| if dir == 0 { e.src == id } else { e.dst == id })
                .map(|(eid, e)| (*eid, if dir == 0 { e.dst } else { e.src }, e.ty.clone()))
                .collect();
            let want_ids = multiset(want_all.iter().map(|x| x.0));
            let dname = if dir == 0 { "outgoing" } else { "incoming" };
            // Edge objects
            let edges = if dir == 0 { g.get_outgoing_edges(nid) } else { g.get_incoming_edges(nid) };
            let got = multiset(edges.iter().map(|e| e.id.as_u64()));
            if got != want_ids {
                let cl = c.class_of(&got, &want_ids);
                c.fail(&format!("get_{dname}_edges"), cl, format!("node {id}: edge ids {:?} want {:?}", got, want_ids));
            } else {
                for e in &edges {
                    let x = &m.edges[&e.id.as_u64()];
                    let ok = e.source.as_u64() == x.src && e.target.as_u64() == x.dst && e.edge_type.as_str() == x.ty;
                    if !ok {
                        c.fail(&format!("get_{dname}_edges"), "wrong_shape", format!("node {id}: edge {} shape", e.id.as_u64()));
                    }
                }
            }
            // tuples
            let tuples = if dir == 0 { g.get_outgoing_edge_targets(nid) } else { g.get_incoming_edge_sources(nid) };
            let got = multiset(tuples.iter().map(|t| t.0.as_u64()));
            if got != want_ids {
                let cl = c.class_of(&got, &want_ids);
                c.fail(&format!("get_{dname}_tuples"), cl, format!("node {id}: edge ids {:?} want {:?}", got, want_ids));
            } else {
                for t in &tuples {
                    let x = &m.edges[&t.0.as_u64()];
                    if t.1.as_u64() != x.src || t.2.as_u64() != x.dst || t.3.as_str() != x.ty {
                        c.fail(&format!("get_{dname}_tuples"), "wrong_shape", format!("node {id}: tuple for edge {} is ({},{},{})", t.0.as_u64(), t.1.as_u64(), t.2.as_u64(), t.3.as_str()));
                    }
                }
            }
            let tuples2 = if dir == 0 { g.get_outgoing_edge_targets_owned(nid) } else { g.get_incoming_edge_sources_owned(nid) };
            if multiset(tuples2.iter().map(|t| t.0.as_u64())) != want_ids {
                let got = multiset(tuples2.iter().map(|t| t.0.as_u64()));
                let cl = c.class_of(&got, &want_ids);
                c.fail(&format!("get_{dname}_tuples_owned"), cl, format!("node {id}: edge ids {:?} want {:?}", got, want_ids));
            }
            // walkers, no filter
            let mut seen: Vec<(u64, u64)> = Vec::new();
            if dir == 0 {
                g.for_each_outgoing_neighbor(nid, None, |n, e| seen.push((e.as_u64(), n.as_u64())));
            } else {
                g.for_each_incoming_neighbor(nid, None, |n, e| seen.push((e.as_u64(), n.as_u64())));
            }
            let got = multiset(seen.iter().map(|x| x.0));
            if got != want_ids {
                let cl = c.class_of(&got, &want_ids);
                c.fail(&format!("for_each_{dname}_neighbor"), cl, format!("node {id}: edge ids {:?} want {:?}", got, want_ids));
            } else {
                for (e, n) in &seen {
                    let x = &m.edges[e];
                    let wn = if dir == 0 { x.dst } else { x.src };
                    if *n != wn {
                        c.fail(&format!("for_each_{dname}_neighbor"), "wrong_neighbor", format!("node {id}: edge {e} neighbour {n} want {wn}"));
                    }
                }
            }
            // per type
            for (ti, t) in TYPES.iter().enumerate() {
                let want_t: Vec<&(u64, u64, String)> = want_all.iter().filter(|x| x.2 == *t).collect();
                let want_t_ids = multiset(want_t.iter().map(|x| x.0));
                let want_neigh = multiset(want_t.iter().map(|x| x.1));
                let et = EdgeType::new(*t);
                // walker with type filter
                let mut seen: Vec<u64> = Vec::new();
                let filter: Vec<u16> = type_ids[ti].into_iter().collect();
                if dir == 0 {
                    g.for_each_outgoing_neighbor(nid, Some(&filter), |_n, e| seen.push(e.as_u64()));
                } else {
                    g.for_each_incoming_neighbor(nid, Some(&filter), |_n, e| seen.push(e.as_u64()));
                }
                let got = multiset(seen);
                if got != want_t_ids {
                    let cl = c.class_of(&got, &want_t_ids);
                    c.fail(&format!("for_each_{dname}_neighbor_typed"), cl, format!("node {id} type {t}: {:?} want {:?}", got, want_t_ids));
                }
                let mut ns: Vec<u64> = Vec::new();
                if dir == 0 {
                    g.for_each_outgoing_neighbor_of_type(nid, &et, |n| ns.push(n.as_u64()));
                } else {
                    g.for_each_incoming_neighbor_of_type(nid, &et, |n| ns.push(n.as_u64()));
                }
                let gotn = multiset(ns);
                if gotn != want_neigh {
                    let class = if !m.ghosts.is_empty() { "with_ghosts_present" } else { "other" };
                    c.fail(&format!("for_each_{dname}_neighbor_of_type"), class, format!("node {id} type {t}: neighbours {:?} want {:?}", gotn, want_neigh));
                }
                let deg = if dir == 0 { g.outgoing_degree_for_type(nid, &et) } else { g.incoming_degree_for_type(nid, &et) };
                if deg != want_t.len() {
                    let class = if !m.ghosts.is_empty() { "with_ghosts_present" } else { "other" };
                    c.fail(&format!("{dname}_degree_for_type"), class, format!("node {id} type {t}: {deg} want {}", want_t.len()));
                }
            }
        }
    }
    // ---- edges_between / edge_between (needs sorted buffers: skipped during a pending stub batch)
    if !m.pending_stub {
        let ids: Vec<u64> = (1..=m.max_node).collect();
        for &a in &ids {
            for &b in &ids {
                for tf in 0..3 {
                    let et = if tf < 2 { Some(EdgeType::new(TYPES[tf])) } else { None };
                    let want = multiset(
                        m.edges
                            .iter()
                            .filter(|(_, e)| e.src == a && e.dst == b && et.as_ref().map(|t| t.as_str() == e.ty).unwrap_or(true))
                            .map(|(i, _)| *i),
                    );
                    let got = multiset(g.edges_between(NodeId::new(a), NodeId::new(b), et.as_ref()).into_iter().map(|e| e.as_u64()));
                    if got != want {
                        let cl = c.class_of(&got, &want);
                        c.fail("edges_between", cl, format!("{a}->{b} type {:?}: {:?} want {:?}", et.as_ref().map(|t| t.as_str().to_string()), got, want));
                    }
                    let one = g.edge_between(NodeId::new(a), NodeId::new(b), et.as_ref()).map(|e| e.as_u64());
                    match one {
                        None if !want.is_empty() => c.fail("edge_between", "missing", format!("{a}->{b}: None, want one of {:?}", want)),
                        Some(e) if !want.contains_key(&e) => {
                            let class = if m.ghosts.contains(&e) { "ghost_of_frozen_deleted_edge" } else { "other" };
                            c.fail("edge_between", class, format!("{a}->{b}: {e} not in {:?}", want))
                        }
                        _ => {}
                    }
                }
            }
        }
    }
    // ---- by label
    for l in LABELS {
        let lab = Label::new(l);
        let want: BTreeSet<u64> = m.nodes.iter().filter(|(_, n)| n.labels.contains(l)).map(|(i, _)| *i).collect();
        let got: Vec<u64> = g.get_nodes_by_label(&lab).iter().map(|n| n.id.as_u64()).collect();
        if multiset(got.iter().cloned()) != multiset(want.iter().cloned()) {
            c.fail("get_nodes_by_label", "other", format!("label {l}: {:?} want {:?}", got, want));
        }
        let got: Vec<u64> = g.node_ids_by_label(&lab, None).iter().map(|n| n.as_u64()).collect();
        if multiset(got.iter().cloned()) != multiset(want.iter().cloned()) {
            c.fail("node_ids_by_label", "other", format!("label {l}: {:?} want {:?}", got, want));
        }
        if g.label_node_count(&lab) != want.len() {
            c.fail("label_node_count", "other", format!("label {l}: {} want {}", g.label_node_count(&lab), want.len()));
        }
        let got: BTreeSet<u64> = g.nodes_with_label(&lab).map(|s| s.iter().map(|n| n.as_u64()).collect()).unwrap_or_default();
        if got != want {
            c.fail("nodes_with_label", "other", format!("label {l}: {:?} want {:?}", got, want));
        }
    }
    // ---- by type (stub loads skip this index until finish_bulk_load)
    if !m.pending_stub {
        for t in TYPES {
            let et = EdgeType::new(t);
            let want = multiset(m.edges.iter().filter(|(_, e)| e.ty == t).map(|(i, _)| *i));
            let got = multiset(g.get_edges_by_type(&et).iter().map(|e| e.id.as_u64()));
            if got != want {
                let cl = c.class_of(&got, &want);
                c.fail("get_edges_by_type", cl, format!("type {t}: {:?} want {:?}", got, want));
            }
            if g.edge_type_count(&et) != want.len() {
                c.fail("edge_type_count", "other", format!("type {t}: {} want {}", g.edge_type_count(&et), want.len()));
            }
        }
    }
    // ---- totals
    if g.node_count() != m.nodes.len() {
        c.fail("node_count", "other", format!("{} want {}", g.node_count(), m.nodes.len()));
    }
    if g.edge_count() != m.edges.len() {
        let class = if g.edge_count() == m.edges.len() + m.ghosts.len() { "ghost_of_frozen_deleted_edge" } else { "other" };
        c.fail("edge_count", class, format!("{} want {} (ghosts {})", g.edge_count(), m.edges.len(), m.ghosts.len()));
    }
    let got = multiset(g.all_nodes().iter().map(|n| n.id.as_u64()));
    if got != multiset(m.nodes.keys().cloned()) {
        c.fail("all_nodes", "other", format!("{:?} want {:?}", got, m.nodes.keys().collect::<Vec<_>>()));
    }
    let got = multiset(g.all_edges().iter().map(|e| e.id.as_u64()));
    let want = multiset(m.edges.keys().cloned());
    if got != want {
        let cl = c.class_of(&got, &want);
        c.fail("all_edges", cl, format!("{:?} want {:?}", got, want));
    }
}

impl Scenario for C06 {
    fn id(&self) -> &'static str {
        "C06"
    }
    fn runs(&self, tier: Tier) -> u64 {
        match tier {
            Tier::Quick => 24_000,
            Tier::Thorough => 3_000_000,
        }
    }
    fn rule(&self) -> &'static str {
        "history = PRNG-generated sequence of GraphStore API calls (<=40 ops, <=~8 live nodes, 2 labels, 2 types, 2 keys) with maintenance events (compact_adjacency, compact_adjacency_if_needed(th), finish_bulk_load) injected at PRNG-chosen points; every public read view is compared with the reference model after every step. Non-trivial = the history created >=1 relationship and contains >=1 maintenance event and >=1 deletion. Distinct = hash of the sequence of (op kind, resolved entity ranks)."
    }
    fn real_components(&self) -> Vec<&'static str> {
        vec!["samyama::graph::GraphStore (all mutators and the public read API)", "ColumnStore (node/edge columns)", "rayon::join inside compact_adjacency (1-thread pool)"]
    }
    fn stub_components(&self) -> Vec<&'static str> {
        vec![]
    }
    fn assumptions(&self) -> Vec<&'static str> {
        vec![
            "reference model (BTreeMap of nodes/edges keyed by the ids the store returned) is correct",
            "stub relationships are only generated between live nodes (create_edge_stub documents no validation)",
            "edges_between / get_edges_by_type / edge_type_count are compared only when no unfinished stub batch is pending (the property says 'bulk stub loads finished by the bulk-load step')",
            "current_version never advances in this scenario (no transactions); MVCC is C07's subject",
        ]
    }
    fn required_probes(&self, _tier: Tier) -> Vec<&'static str> {
        vec!["edge_id_reused_after_compaction", "multi_segment_frozen", "node_id_reused", "stub_batch_finished"]
    }
    fn generate(&self, s: &mut Streams, _run_index: u64, _tier: Tier) -> Case {
        let mut case = Case::new("C06");
        let n = s.knobs.short_len(3, 40);
        let allow_stub = s.knobs.chance(1, 3);
        case.knobs.insert("allow_stub".into(), json!(allow_stub));
        // start with a couple of nodes so edges are possible early
        let pre = s.knobs.below(4);
        for _ in 0..pre {
            case.events.push(json!({"op":"create_node","variant":0,"labels":[s.workload.below(2)],"props":{}}));
        }
        for _ in 0..n {
            case.events.push(gen_event(&mut s.workload, allow_stub));
        }
        case
    }
    fn shrink_event(&self, ev: &Value) -> Vec<Value> {
        let mut out = Vec::new();
        match op(ev) {
            "create_node" => {
                out.push(json!({"op":"create_node","variant":0,"labels":[0],"props":{}}));
            }
            "create_edge" => {
                let mut e = ev.clone();
                e["variant"] = json!(0);
                e["props"] = json!({});
                out.push(e);
            }
            "compact_if_needed" | "finish_bulk_load" => out.push(json!({"op":"compact"})),
            _ => {}
        }
        out
    }
    fn execute(&self, case: &Case) -> Outcome {
        let mut o = Outcome::new();
        let mut g = GraphStore::new();
        let mut m = Model::default();
        let mut sig_parts: Vec<String> = Vec::new();
        let mut had_maint = false;
        let mut had_delete = false;
        let mut had_edge = false;
        for (step, ev) in case.events.iter().enumerate() {
            let kind = op(ev).to_string();
            let mut resolved = String::new();
            match kind.as_str() {
                "create_node" => {
                    let labels: Vec<String> = ev["labels"].as_array().map(|a| a.iter().map(|x| LABELS[(x.as_u64().unwrap_or(0) % 2) as usize].to_string()).collect()).unwrap_or_default();
                    let variant = u(ev, "variant");
                    let (pm, bm) = props_from(&ev["props"]);
                    let id = match variant {
                        0 if labels.len() == 1 => g.create_node(labels[0].as_str()),
                        1 => g.create_node_with_properties("default", labels.iter().map(|l| Label::new(l.as_str())).collect(), pm.clone()),
                        _ => g.create_node_with_labels(labels.iter().map(|l| Label::new(l.as_str()))),
                    };
                    let idu = id.as_u64();
                    if m.nodes.contains_key(&idu) {
                        o.violate(Violation::new("C06/create_node/id_collision", format!("create_node returned live id {idu}"), step));
                        break;
                    }
                    if m.ever_deleted_node_ids.contains(&idu) {
                        o.probe("node_id_reused");
                    }
                    let props = if variant == 1 { bm.into_iter().filter(|(_, v)| v != "N").collect() } else { BTreeMap::new() };
                    m.nodes.insert(idu, MNode { labels: labels.into_iter().collect(), props });
                    m.max_node = m.max_node.max(idu);
                    resolved = format!("{variant}");
                }
                "create_node_stub" => {
                    let l = LABELS[(u(ev, "label") % 2) as usize];
                    let id = g.create_node_stub(l).as_u64();
                    if m.nodes.contains_key(&id) {
                        o.violate(Violation::new("C06/create_node_stub/id_collision", format!("returned live id {id}"), step));
                        break;
                    }
                    if m.ever_deleted_node_ids.contains(&id) {
                        o.probe("node_id_reused");
                    }
                    m.nodes.insert(id, MNode { labels: [l.to_string()].into_iter().collect(), props: BTreeMap::new() });
                    m.max_node = m.max_node.max(id);
                }
                "create_edge" | "create_edge_stub" => {
                    let live = m.live_nodes();
                    let (Some(sn), Some(tn)) = (pick(&live, u(ev, "s")), pick(&live, u(ev, "t"))) else { continue };
                    let ty = TYPES[(u(ev, "type") % 2) as usize];
                    let (pm, bm) = props_from(&ev["props"]);
                    let stub = kind == "create_edge_stub";
                    let variant = u(ev, "variant");
                    let r = if stub {
                        g.create_edge_stub(NodeId::new(sn), NodeId::new(tn), ty)
                    } else if variant == 1 {
                        g.create_edge_with_properties(NodeId::new(sn), NodeId::new(tn), ty, pm)
                    } else {
                        g.create_edge(NodeId::new(sn), NodeId::new(tn), ty)
                    };
                    match r {
                        Ok(eid) => {
                            let e = eid.as_u64();
                            if m.edges.contains_key(&e) {
                                o.violate(Violation::new("C06/create_edge/id_collision", format!("create_edge returned live id {e}"), step));
                                break;
                            }
                            if m.ghosts.contains(&e) {
                                o.probe("edge_id_reused_after_compaction");
                            }
                            if m.ever_deleted_edge_ids.contains(&e) {
                                o.probe("edge_id_reused");
                            }
                            let props = if !stub && variant == 1 { bm.into_iter().filter(|(_, v)| v != "N").collect() } else { BTreeMap::new() };
                            m.edges.insert(e, MEdge { src: sn, dst: tn, ty: ty.to_string(), props });
                            m.max_edge = m.max_edge.max(e);
                            if stub {
                                m.pending_stub = true;
                            }
                            had_edge = true;
                        }
                        Err(err) => {
                            o.violate(Violation::new("C06/create_edge/refused_between_live_nodes", format!("{sn}->{tn}: {err}"), step));
                            break;
                        }
                    }
                    let rank = |x: u64| live.iter().position(|y| *y == x).unwrap_or(0);
                    resolved = format!("{}>{}:{}", rank(sn), rank(tn), ty);
                }
                "delete_edge" => {
                    let live = m.live_edges();
                    let Some(e) = pick(&live, u(ev, "e")) else { continue };
                    match g.delete_edge(EdgeId::new(e)) {
                        Ok(_) => {}
                        Err(err) => {
                            o.violate(Violation::new("C06/delete_edge/refused_live_edge", format!("edge {e}: {err}"), step));
                            break;
                        }
                    }
                    m.del_edge(e);
                    had_delete = true;
                    resolved = format!("{}", live.iter().position(|y| *y == e).unwrap_or(0));
                }
                "delete_node" => {
                    let live = m.live_nodes();
                    let Some(n) = pick(&live, u(ev, "n")) else { continue };
                    match g.delete_node("default", NodeId::new(n)) {
                        Ok(_) => {}
                        Err(err) => {
                            o.violate(Violation::new("C06/delete_node/refused_live_node", format!("node {n}: {err}"), step));
                            break;
                        }
                    }
                    let inc: Vec<u64> = m.edges.iter().filter(|(_, e)| e.src == n || e.dst == n).map(|(i, _)| *i).collect();
                    for e in inc {
                        m.del_edge(e);
                    }
                    m.nodes.remove(&n);
                    m.ever_deleted_node_ids.insert(n);
                    had_delete = true;
                    resolved = format!("{}", live.iter().position(|y| *y == n).unwrap_or(0));
                }
                "add_label" | "remove_label" => {
                    let live = m.live_nodes();
                    let Some(n) = pick(&live, u(ev, "n")) else { continue };
                    let l = LABELS[(u(ev, "label") % 2) as usize];
                    if kind == "add_label" {
                        if let Err(err) = g.add_label_to_node("default", NodeId::new(n), l) {
                            o.violate(Violation::new("C06/add_label/refused", format!("{err}"), step));
                            break;
                        }
                        m.nodes.get_mut(&n).unwrap().labels.insert(l.to_string());
                    } else {
                        let had = m.nodes[&n].labels.contains(l);
                        match g.remove_label_from_node(NodeId::new(n), &Label::new(l)) {
                            Ok(b) if b == had => {}
                            Ok(b) => {
                                o.violate(Violation::new("C06/remove_label/wrong_return", format!("returned {b}, model had={had}"), step));
                            }
                            Err(err) => {
                                o.violate(Violation::new("C06/remove_label/refused", format!("{err}"), step));
                                break;
                            }
                        }
                        m.nodes.get_mut(&n).unwrap().labels.remove(l);
                    }
                    resolved = format!("{}:{l}", live.iter().position(|y| *y == n).unwrap_or(0));
                }
                "set_prop" | "set_col_prop" | "remove_prop" => {
                    let live = m.live_nodes();
                    let Some(n) = pick(&live, u(ev, "n")) else { continue };
                    let k = KEYS[(u(ev, "key") % 2) as usize];
                    match kind.as_str() {
                        "set_prop" => {
                            let pv = pv_from_json(&ev["val"]);
                            let canon = pv_canon(&pv);
                            if let Err(err) = g.set_node_property("default", NodeId::new(n), k, pv) {
                                o.violate(Violation::new("C06/set_node_property/refused", format!("{err}"), step));
                                break;
                            }
                            m.nodes.get_mut(&n).unwrap().props.insert(k.to_string(), canon);
                        }
                        "set_col_prop" => {
                            // column-only write: visible through node_properties_full unless the row map
                            // already holds the key (row wins there; merged lets the column win) — to keep
                            // the oracle unambiguous only generate it for keys the row does not hold.
                            let row_has = g.get_node(NodeId::new(n)).map(|x| x.properties.contains_key(k)).unwrap_or(false);
                            if row_has {
                                continue;
                            }
                            let pv = pv_from_json(&ev["val"]);
                            let canon = pv_canon(&pv);
                            g.set_column_property(NodeId::new(n), k, pv);
                            m.nodes.get_mut(&n).unwrap().props.insert(k.to_string(), canon);
                        }
                        _ => {
                            g.remove_node_property(NodeId::new(n), k);
                            m.nodes.get_mut(&n).unwrap().props.remove(k);
                        }
                    }
                    resolved = format!("{}:{k}", live.iter().position(|y| *y == n).unwrap_or(0));
                }
                "compact" => {
                    g.compact_adjacency();
                    m.on_compact();
                    had_maint = true;
                }
                "compact_if_needed" => {
                    let th = u(ev, "th") as usize;
                    let buffered = m.edges.keys().filter(|e| !m.frozen_alive.contains(e)).count();
                    let ran = g.compact_adjacency_if_needed(th);
                    // the documented contract: runs iff buffer non-empty and >= threshold
                    let want = buffered > 0 && buffered >= th;
                    if ran != want && m.ghosts.is_empty() {
                        o.violate(Violation::new("C06/compact_adjacency_if_needed/decision", format!("ran={ran} buffered={buffered} th={th}"), step));
                    }
                    if ran {
                        m.on_compact();
                        had_maint = true;
                    }
                }
                "finish_bulk_load" => {
                    g.finish_bulk_load();
                    m.on_compact();
                    if m.pending_stub {
                        o.probe("stub_batch_finished");
                    }
                    m.pending_stub = false;
                    had_maint = true;
                }
                _ => continue,
            }
            if m.compactions_with_edges >= 2 {
                o.probe("multi_segment_frozen");
            }
            sig_parts.push(format!("{kind}{resolved}"));
            o.steps += 1;
            let mut ctx = Ctx { m: &m, g: &g, step, last_op: kind.clone(), out: Vec::new() };
            check_all(&mut ctx);
            if !ctx.out.is_empty() {
                for v in ctx.out {
                    o.violate(v);
                }
                break;
            }
        }
        o.nontrivial = had_maint && had_delete && had_edge;
        o.class_key = hash_str(&sig_parts.join(","));
        o.state_hash = hash_str(&format!("{:?}|{:?}|{}|{}", m.nodes.keys().collect::<Vec<_>>(), m.edges.keys().collect::<Vec<_>>(), g.node_count(), g.edge_count()));
        o
    }
}
