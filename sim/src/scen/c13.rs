//! C13 — a failed snapshot import leaves the store unchanged.
//!
//! Sim: a small source graph S is built and exported; the snapshot bytes are made a pure
//! function of S (header timestamp fixed, keys/labels sorted, recompressed).  A target
//! store T is built from a second history.  For each of 6 configurations
//! {target empty | target as generated (key values overlap S: "matching") | target with
//! its key values moved to a disjoint domain ("non-matching")} x {no dedup keys | dedup on
//! `key`} the snapshot is imported into a fresh copy of T:
//!   * unmodified                       -> must be Ok and add exactly S (merged on `key`);
//!   * truncated at EVERY byte offset   -> enumerated;
//!   * one flipped bit at sampled offsets, reader error at sampled offsets, plaintext
//!     truncated at sampled offsets and recompressed (a well-formed gzip of a cut file).
//! Err => dump (with ids) + count/label/type views equal the pre-state.
//! Ok on a truncated stream / after a reader error / on a bit flip that leaves the stream
//! undecodable or decoding to the same text: the original snapshot is known, so the store
//! must show exactly what the unmodified import produces (pre-state + all of S); Ok with
//! less is a violation of its own.  Ok on a recompressed plaintext truncation: the store
//! must show pre-state + the records wholly before the cut (a valid shorter snapshot when
//! cut at a record boundary).

use crate::kit::core::*;
use crate::kit::dump::{dump, Dump, GEdge, GNode};
use crate::kit::rng::{fnv1a, Streams};
use crate::kit::snapgraph::*;
use crate::kit::stream::{Decisions, SimReader, StreamFaults};
use samyama::graph::{EdgeType, GraphStore, Label};
use samyama::snapshot::{export_tenant, import_tenant_with_dedup};
use serde_json::{json, Value};
use std::collections::{BTreeMap, BTreeSet};
use std::panic::{catch_unwind, AssertUnwindSafe};

pub struct C13;

const DEDUP_KEY: &str = "key";
const TK_NAMES: [&str; 3] = ["empty", "matching", "nonmatching"];

fn key_value(idx: u64, int_keys: bool, shifted: bool) -> Value {
    if int_keys {
        json!({"i": idx as i64 + if shifted { 1000 } else { 0 }})
    } else if shifted {
        json!({"s": format!("z{idx}")})
    } else {
        json!({"s": format!("k{idx}")})
    }
}

/// Build graph `which` ("s" or "t") from the tagged events.  Key values are kept unique
/// within one graph (a node whose key value is already taken is created without a key), so
/// "the node this one merges into" is never ambiguous.
fn build(case: &Case, which: &str, shifted: bool) -> Builder {
    let int_keys = case.knob_bool("int_keys", false);
    let mut b = Builder::new(false);
    let mut used: BTreeSet<u64> = BTreeSet::new();
    for ev in &case.events {
        if ev.get("g").and_then(|x| x.as_str()) != Some(which) {
            continue;
        }
        let mut e = ev.clone();
        if e["op"] == json!("node") {
            if let Some(k) = e.get("key").and_then(|x| x.as_u64()) {
                if used.insert(k) {
                    if !e["props"].is_object() {
                        e["props"] = json!({});
                    }
                    e["props"][DEDUP_KEY] = key_value(k, int_keys, shifted);
                }
            }
        }
        b.apply(&e);
    }
    b
}

#[derive(Clone, PartialEq, Eq, Debug)]
struct Views {
    node_count: usize,
    edge_count: usize,
    by_label: BTreeMap<String, (Vec<u64>, usize)>,
    by_type: BTreeMap<String, (Vec<u64>, usize)>,
}

fn views(g: &GraphStore) -> Views {
    let mut by_label = BTreeMap::new();
    for l in LABELS.iter().cloned().chain([""]) {
        let lab = Label::new(l);
        let mut ids: Vec<u64> = g.get_nodes_by_label(&lab).iter().map(|n| n.id.as_u64()).collect();
        ids.sort();
        by_label.insert(l.to_string(), (ids, g.label_node_count(&lab)));
    }
    let mut by_type = BTreeMap::new();
    for t in TYPES {
        let et = EdgeType::new(t);
        let mut ids: Vec<u64> = g.get_edges_by_type(&et).iter().map(|e| e.id.as_u64()).collect();
        ids.sort();
        by_type.insert(t.to_string(), (ids, g.edge_type_count(&et)));
    }
    Views { node_count: g.node_count(), edge_count: g.edge_count(), by_label, by_type }
}

/// Classes of difference between the pre-state and the state after a FAILED import.
fn failed_import_diff(before: &Dump, after: &Dump, vb: &Views, va: &Views) -> Vec<(String, String)> {
    let mut out = Vec::new();
    for (id, n) in &after.nodes {
        match before.nodes.get(id) {
            None => out.push(("created_node_left_behind".to_string(), format!("node {id} {:?} {:?} exists after the failed import", n.labels, n.props))),
            Some(b) => {
                if b.labels != n.labels {
                    out.push(("preexisting_node_labels_changed".to_string(), format!("node {id}: labels {:?} became {:?}", b.labels, n.labels)));
                }
                for (k, v) in &n.props {
                    match b.props.get(k) {
                        None => out.push(("preexisting_node_property_added".to_string(), format!("node {id}: property {k:?}={v} was added"))),
                        Some(x) if x != v => out.push(("preexisting_node_property_changed".to_string(), format!("node {id}: property {k:?} {x} became {v}"))),
                        _ => {}
                    }
                }
                for k in b.props.keys() {
                    if !n.props.contains_key(k) {
                        out.push(("preexisting_node_property_removed".to_string(), format!("node {id}: property {k:?} disappeared")));
                    }
                }
            }
        }
    }
    for id in before.nodes.keys() {
        if !after.nodes.contains_key(id) {
            out.push(("preexisting_node_lost".to_string(), format!("node {id} no longer exists")));
        }
    }
    for (id, e) in &after.edges {
        match before.edges.get(id) {
            None => {
                let class = if before.nodes.contains_key(&e.src) && before.nodes.contains_key(&e.dst) { "relationship_added_between_preexisting_nodes" } else { "created_relationship_left_behind" };
                out.push((class.to_string(), format!("relationship {id} {}-[:{}]->{} exists after the failed import", e.src, e.ty, e.dst)));
            }
            Some(b) if b != e => out.push(("preexisting_relationship_changed".to_string(), format!("relationship {id}: {b:?} became {e:?}"))),
            _ => {}
        }
    }
    for id in before.edges.keys() {
        if !after.edges.contains_key(id) {
            out.push(("preexisting_relationship_lost".to_string(), format!("relationship {id} no longer exists")));
        }
    }
    if out.is_empty() && vb != va {
        if vb.node_count != va.node_count {
            out.push(("views_differ_dump_equal/node_count".to_string(), format!("node_count {} became {}", vb.node_count, va.node_count)));
        }
        if vb.edge_count != va.edge_count {
            out.push(("views_differ_dump_equal/edge_count".to_string(), format!("edge_count {} became {}", vb.edge_count, va.edge_count)));
        }
        if vb.by_label != va.by_label {
            out.push(("views_differ_dump_equal/label_index".to_string(), format!("label views {:?} became {:?}", vb.by_label, va.by_label)));
        }
        if vb.by_type != va.by_type {
            out.push(("views_differ_dump_equal/type_index".to_string(), format!("type views {:?} became {:?}", vb.by_type, va.by_type)));
        }
    }
    out
}

/// The graph a successful import must produce: `before` plus S, S's nodes merged into the
/// existing node that has the same `key` value and shares a label when `dedup`.
/// On a property that both the existing node and the merged snapshot node hold the text
/// does not say which side wins: either value is accepted, per property — the expectation
/// takes whichever of the two the store shows (`after`), the existing one if it shows
/// neither.  Returns (expected dump, merges).
fn expected_after(before: &Dump, s: &Dump, after: &Dump, dedup: bool) -> (Dump, usize) {
    let mut exp = before.clone();
    let mut map: BTreeMap<u64, u64> = BTreeMap::new();
    let mut next = 1_000_000u64;
    let mut merges = 0;
    // nodes created earlier in the same import are merge candidates too; key values are
    // unique within S, so that never happens here
    for (sid, sn) in &s.nodes {
        let mut target: Option<u64> = None;
        if dedup {
            if let Some(kv) = sn.props.get(DEDUP_KEY) {
                let labels: BTreeSet<String> = if sn.labels.is_empty() { [String::new()].into_iter().collect() } else { sn.labels.clone() };
                for (tid, tn) in &before.nodes {
                    if tn.props.get(DEDUP_KEY) == Some(kv) && tn.labels.intersection(&labels).next().is_some() {
                        target = Some(*tid);
                        break;
                    }
                }
            }
        }
        match target {
            Some(tid) => {
                merges += 1;
                let shown = after.nodes.get(&tid);
                let tn = exp.nodes.get_mut(&tid).unwrap();
                tn.labels.extend(sn.labels.iter().cloned());
                for (k, v) in &sn.props {
                    let snapshot_value_shown = shown.and_then(|n| n.props.get(k)) == Some(v);
                    if !tn.props.contains_key(k) || snapshot_value_shown {
                        tn.props.insert(k.clone(), v.clone());
                    }
                }
                map.insert(*sid, tid);
            }
            None => {
                exp.nodes.insert(next, GNode { labels: sn.labels.clone(), props: sn.props.clone() });
                map.insert(*sid, next);
                next += 1;
            }
        }
    }
    for e in s.edges.values() {
        exp.edges.insert(next, GEdge { src: map[&e.src], dst: map[&e.dst], ty: e.ty.clone(), props: e.props.clone() });
        next += 1;
    }
    (exp, merges)
}

fn ok_import_diff(before: &Dump, s: &Dump, after: &Dump, dedup: bool) -> (Vec<(String, String)>, usize) {
    let (exp, m) = expected_after(before, s, after, dedup);
    let mut out = Vec::new();
    if after.nodes.len() != exp.nodes.len() {
        out.push(("node_count_wrong".to_string(), format!("{} nodes after import, expected {} ({} before, snapshot has {}, {} merged)", after.nodes.len(), exp.nodes.len(), before.nodes.len(), s.nodes.len(), m)));
    }
    if after.edges.len() != exp.edges.len() {
        out.push(("relationship_count_wrong".to_string(), format!("{} relationships after import, expected {}", after.edges.len(), exp.edges.len())));
    }
    for id in before.nodes.keys() {
        if after.nodes.get(id) != exp.nodes.get(id) {
            let class = if exp.nodes.get(id) == before.nodes.get(id) { "unrelated_preexisting_node_changed" } else { "merged_node_wrong" };
            out.push((class.to_string(), format!("node {id}: {:?}, expected {:?}", after.nodes.get(id), exp.nodes.get(id))));
        }
    }
    for (id, e) in &before.edges {
        if after.edges.get(id) != Some(e) {
            out.push(("preexisting_relationship_changed".to_string(), format!("relationship {id}: {:?}, was {:?}", after.edges.get(id), e)));
        }
    }
    if out.is_empty() && after.canonical() != exp.canonical() {
        out.push(("graph_differs".to_string(), format!("after import:\n{}\nexpected:\n{}", after.canonical(), exp.canonical())));
    }
    (out, m)
}

/// `Ok` from an import whose input was cut short, failed under the reader or was damaged,
/// while the snapshot it was made from is known: "succeeds, adding exactly the snapshot's
/// nodes and relationships" — the result must be what the unmodified import gives.
/// None = it is; otherwise (class, detail).
fn faulty_ok_class(before: &Dump, s: &Dump, after: &Dump, dedup: bool) -> Option<(&'static str, String)> {
    let (diffs, _) = ok_import_diff(before, s, after, dedup);
    if diffs.is_empty() {
        return None;
    }
    let (exp, _) = expected_after(before, s, after, dedup);
    let class = if after == before {
        "ok_with_nothing_imported"
    } else if after.nodes.len() <= exp.nodes.len() && after.edges.len() <= exp.edges.len() && (after.nodes.len() < exp.nodes.len() || after.edges.len() < exp.edges.len()) {
        "ok_with_partial_content"
    } else {
        "ok_with_wrong_content"
    };
    let what: Vec<String> = diffs.iter().map(|d| format!("{}: {}", d.0, d.1)).collect();
    Some((
        class,
        format!(
            "import returned Ok; store has {} nodes / {} relationships, was {} / {} before, the snapshot holds {} / {} ({})",
            after.nodes.len(),
            after.edges.len(),
            before.nodes.len(),
            before.edges.len(),
            s.nodes.len(),
            s.edges.len(),
            what.join("; ")
        ),
    ))
}

/// What a snapshot file cut after `at` bytes of its text still holds: the part of S whose
/// records are wholly inside the prefix (record ids in the file are S's own node and
/// relationship ids; nodes precede relationships, so a kept relationship has both ends).
/// Second result: the cut falls inside a record (some but not all of its bytes are there).
fn prefix_snapshot(text: &str, at: usize, s: &Dump) -> (Dump, bool) {
    let mut out = Dump::default();
    let mut inside = false;
    let mut start = 0usize;
    for (i, line) in text.split('\n').enumerate() {
        let end = start + line.len();
        if start < at && at < end {
            inside = true;
        }
        if i > 0 && !line.is_empty() && end <= at {
            if let Ok(v) = serde_json::from_str::<Value>(line) {
                let id = v["id"].as_u64().unwrap_or(0);
                match v["t"].as_str() {
                    Some("n") => {
                        if let Some(n) = s.nodes.get(&id) {
                            out.nodes.insert(id, n.clone());
                        }
                    }
                    Some("e") => {
                        if let Some(e) = s.edges.get(&id) {
                            if out.nodes.contains_key(&e.src) && out.nodes.contains_key(&e.dst) {
                                out.edges.insert(id, e.clone());
                            }
                        }
                    }
                    _ => {}
                }
            }
        }
        start = end + 1;
    }
    (out, inside)
}

struct Sub {
    tk: usize,
    dd: bool,
    kind: &'static str,
    at: usize,
    bit: u8,
}

fn kind_static(k: &str) -> &'static str {
    match k {
        "none" => "none",
        "trunc" => "trunc",
        "flip" => "flip",
        "rerr" => "rerr",
        _ => "ptrunc",
    }
}

impl Scenario for C13 {
    fn id(&self) -> &'static str {
        "C13"
    }
    fn level(&self) -> &'static str {
        "fault_enumeration"
    }
    fn runs(&self, tier: Tier) -> u64 {
        match tier {
            Tier::Quick => 600,
            Tier::Thorough => 60_000,
        }
    }
    fn rule(&self) -> &'static str {
        "case = a source history S (2-6 nodes with 1-2 labels out of 3, an optional unique `key` value out of 6, safe property values; 1-6 relationships; API and stub routes) and a target history T (0-5 nodes with keys from the same domain, relationships, early deletions so ids are reused, optional compaction). The snapshot of S (<= ~700 bytes) is imported into a fresh T under 6 configurations {empty, matching, non-matching target} x {no dedup keys, dedup on `key`}; per configuration: the unmodified stream, EVERY truncation offset, 48 sampled single-bit flips, 24 sampled reader-error offsets, 24 sampled plaintext truncations (recompressed). One sub-execution = build T, snapshot its dump and views, import, compare (Err: store unchanged; Ok on the unmodified stream, on a truncated stream, after a reader error or on a bit flip: store = pre-state + all of S; Ok on a recompressed plaintext truncation: store = pre-state + the records of S wholly before the cut). Non-trivial = S has >=2 nodes and >=1 relationship and at least one node was merged in the (matching, dedup) configuration. Distinct = hash of (canonical S, canonical T, key kind)."
    }
    fn real_components(&self) -> Vec<&'static str> {
        vec![
            "samyama::snapshot::{export_tenant, import_tenant_with_dedup} incl. the rollback of created nodes",
            "flate2 GzDecoder, serde_json",
            "samyama::graph::GraphStore (create_node_stub, set_column_property, create_edge_stub, delete_node, finish_bulk_load), ColumnStore",
        ]
    }
    fn stub_components(&self) -> Vec<&'static str> {
        vec![
            "byte source: kit::stream::SimReader (early EOF, error at offset, short reads)",
            "the exported bytes are canonicalised before use (header `created_at` fixed, JSON object keys and label arrays sorted, recompressed at level 6): the snapshot is a pure function of S, so fault offsets mean the same thing in every process",
        ]
    }
    fn assumptions(&self) -> Vec<&'static str> {
        vec![
            "S uses only values that survive a round trip on the unchanged tree (no leading/trailing whitespace, no non-finite floats, every node labelled, one version per node): lossy values are C12's subject",
            "key values are unique within S and within T, all strings k0..k5 or all integers (knob), so 'the existing node with the same key' is unambiguous and does not depend on the importer's case/whitespace normalisation",
            "on a property that both the existing and the merged snapshot node hold, either value is accepted (the text does not say which side wins)",
            "'unchanged' = kit::dump::dump with ids + node_count/edge_count + get_nodes_by_label/label_node_count + get_edges_by_type/edge_type_count; id free-lists, interned-type tables and empty label-index entries are not compared",
        ]
    }
    fn required_probes(&self, _tier: Tier) -> Vec<&'static str> {
        vec!["merge_happened", "rolled_back_after_partial_apply", "failed_import/trunc", "failed_import/flip", "failed_import/rerr", "failed_import/ptrunc", "ok_unmodified", "target_had_reused_ids", "target_had_frozen_tier"]
    }
    fn generate(&self, s: &mut Streams, _run_index: u64, _tier: Tier) -> Case {
        let mut case = Case::new("C13");
        let cfg = GenCfg { max_ops: 0, boundary: false, unlabelled: false, commits: false, cypher: false, deletes: false, hier: false, type_tokens: false };
        case.knobs.insert("int_keys".into(), json!(s.knobs.chance(1, 3)));
        case.knobs.insert("r_chunk".into(), json!([0, 0, 1, 7][s.knobs.usize_below(4)]));
        let r = &mut s.workload;
        let mut node = |r: &mut crate::kit::rng::Rng, g: &str| -> Value {
            let mut e = gen_node(r, &cfg);
            // labels out of the first three only, 1-2 of them
            let n = 1 + r.below(2);
            let mut ls: Vec<u64> = Vec::new();
            while (ls.len() as u64) < n {
                let l = r.below(3);
                if !ls.contains(&l) {
                    ls.push(l);
                }
            }
            e["labels"] = json!(ls);
            e["g"] = json!(g);
            if r.chance(3, 4) {
                e["key"] = json!(r.below(6));
            }
            // at most one extra property keeps the snapshot small
            if let Some(p) = e["props"].as_object_mut() {
                while p.len() > 1 {
                    let k = p.keys().next().cloned().unwrap();
                    p.remove(&k);
                }
            }
            e
        };
        let mut edge = |r: &mut crate::kit::rng::Rng, g: &str| -> Value {
            let mut e = gen_edge(r, &cfg);
            e["g"] = json!(g);
            if let Some(p) = e["props"].as_object_mut() {
                while p.len() > 1 {
                    let k = p.keys().next().cloned().unwrap();
                    p.remove(&k);
                }
            }
            e
        };
        // source
        let sn = 2 + r.below(5);
        for _ in 0..sn {
            case.events.push(node(r, "s"));
        }
        for _ in 0..(1 + r.below(6)) {
            case.events.push(edge(r, "s"));
        }
        if r.chance(1, 3) {
            case.events.push(json!({"g":"s","op":"add_label","n":r.below(64),"label":r.below(3)}));
        }
        // target
        let tn = r.below(6);
        let s_nodes: Vec<Value> = case.events.iter().filter(|e| e["op"] == json!("node") && e.get("key").is_some()).cloned().collect();
        for _ in 0..tn {
            let mut e = node(r, "t");
            // half of the target nodes are made to match a source node: same key, one label shared
            if !s_nodes.is_empty() && r.chance(1, 2) {
                let m = &s_nodes[r.usize_below(s_nodes.len())];
                e["key"] = m["key"].clone();
                let shared = m["labels"][0].clone();
                if !e["labels"].as_array().map(|a| a.contains(&shared)).unwrap_or(false) {
                    e["labels"][0] = shared;
                }
            }
            case.events.push(e);
        }
        for _ in 0..r.below(5) {
            let ev = match r.below(10) {
                0 => json!({"g":"t","op":"del_node","n":r.below(64)}),
                1 => json!({"g":"t","op":"del_edge","e":r.below(64)}),
                2 => {
                    let via = ["api", "col"][r.usize_below(2)];
                    json!({"g":"t","op":"set","via":via,"n":r.below(64),"key":r.below(KEYS.len() as u64),"val":gen_safe_value(r, 0)})
                }
                3 => node(r, "t"),
                _ => edge(r, "t"),
            };
            case.events.push(ev);
        }
        if r.chance(1, 2) {
            let mop = ["compact", "finish_bulk_load"][r.usize_below(2)];
            case.events.push(json!({"g":"t","op":mop}));
            if r.chance(1, 2) {
                case.events.push(edge(r, "t"));
            }
        }
        let f = &mut s.fault;
        case.knobs.insert("flips".into(), json!((0..48).map(|_| f.below(1 << 20)).collect::<Vec<_>>()));
        case.knobs.insert("bits".into(), json!((0..48).map(|_| f.below(8)).collect::<Vec<_>>()));
        case.knobs.insert("rerrs".into(), json!((0..24).map(|_| f.below(1 << 20)).collect::<Vec<_>>()));
        case.knobs.insert("ptruncs".into(), json!((0..24).map(|_| f.below(1 << 20)).collect::<Vec<_>>()));
        case.knobs.insert("r_dec".into(), json!((0..16).map(|_| f.below(1 << 20)).collect::<Vec<_>>()));
        case
    }
    fn shrink_event(&self, ev: &Value) -> Vec<Value> {
        let mut out = shrink_builder_event(ev);
        // keep the graph tag on the simplified variants
        for e in out.iter_mut() {
            e["g"] = ev["g"].clone();
            if let Some(k) = ev.get("key") {
                e["key"] = k.clone();
            }
        }
        if ev["op"] == json!("finish_bulk_load") {
            out = vec![json!({"g": ev["g"].clone(), "op": "compact"})];
        }
        out
    }
    fn execute(&self, case: &Case) -> Outcome {
        tune_allocator();
        let mut o = Outcome::new();
        o.evaluations = 0;
        let nums = |k: &str| -> Vec<u64> { case.knobs.get(k).and_then(|v| v.as_array()).map(|a| a.iter().map(|x| x.as_u64().unwrap_or(0)).collect()).unwrap_or_default() };
        // ---- source graph and its snapshot
        let sb = build(case, "s", false);
        let sdump = dump(&sb.g);
        let mut raw = Vec::new();
        if let Err(e) = export_tenant(&sb.g, &mut raw) {
            o.violate(Violation::new("C13/harness/export_failed", format!("{e}"), 0));
            return o;
        }
        let (snap, text) = match canonical_snapshot(&raw) {
            Ok(x) => x,
            Err(e) => {
                o.violate(Violation::new("C13/harness/export_not_decodable", e, 0));
                return o;
            }
        };
        let len = snap.len();
        if len > 600 {
            o.probe("snapshot_over_600_bytes");
        }
        // ---- sub-executions
        let mut subs: Vec<Sub> = Vec::new();
        if let Some(p) = case.pin() {
            subs.push(Sub {
                tk: (p["tk"].as_u64().unwrap_or(0) as usize) % 3,
                dd: p["dd"].as_bool().unwrap_or(false),
                kind: kind_static(p["kind"].as_str().unwrap_or("none")),
                at: p["at"].as_u64().unwrap_or(0) as usize,
                bit: (p["bit"].as_u64().unwrap_or(0) % 8) as u8,
            });
        } else {
            let (flips, bits, rerrs, ptruncs) = (nums("flips"), nums("bits"), nums("rerrs"), nums("ptruncs"));
            for tk in 0..3 {
                for dd in [false, true] {
                    subs.push(Sub { tk, dd, kind: "none", at: 0, bit: 0 });
                    for at in 0..len {
                        subs.push(Sub { tk, dd, kind: "trunc", at, bit: 0 });
                    }
                    for (i, x) in flips.iter().enumerate() {
                        subs.push(Sub { tk, dd, kind: "flip", at: *x as usize, bit: bits.get(i).cloned().unwrap_or(0) as u8 });
                    }
                    for x in &rerrs {
                        subs.push(Sub { tk, dd, kind: "rerr", at: *x as usize, bit: 0 });
                    }
                    for x in &ptruncs {
                        subs.push(Sub { tk, dd, kind: "ptrunc", at: *x as usize, bit: 0 });
                    }
                }
            }
        }
        let mut hash: u64 = fnv1a(text.as_bytes());
        let mut sigs_seen: BTreeSet<String> = BTreeSet::new();
        let mut t_canon = String::new();
        let mut merged_in_matching = false;
        let mut pre: [Option<(Dump, Views)>; 3] = [None, None, None];
        for sub in &subs {
            o.evaluations += 1;
            // fresh target
            let tb = if sub.tk == 0 { Builder::new(false) } else { build(case, "t", sub.tk == 2) };
            let mut g = tb.g;
            // the pre-state is a function of (case, tk): computed once per target kind
            if pre[sub.tk].is_none() {
                pre[sub.tk] = Some((dump(&g), views(&g)));
            }
            let (before, vb) = pre[sub.tk].clone().unwrap();
            if sub.tk == 1 && t_canon.is_empty() {
                t_canon = before.canonical();
                if tb.counts.get("deleted").cloned().unwrap_or(0) > 0 {
                    o.probe("target_had_reused_ids");
                }
                if g.adjacency_stats().frozen_edges > 0 {
                    o.probe("target_had_frozen_tier");
                }
            }
            // the stream
            let mut bytes = snap.clone();
            let mut rf = StreamFaults { max_chunk: case.knob_u64("r_chunk", 0) as usize, ..Default::default() };
            // sampled offsets are taken modulo the length; a pinned offset is clamped, so that
            // while the shrinker makes the snapshot smaller "late in the file" stays late
            let lim = if sub.kind == "ptrunc" { text.len().max(1) } else { len.max(1) };
            let at = match sub.kind {
                "none" => 0,
                _ if case.pin().is_some() => sub.at.min(lim - 1),
                _ => sub.at % lim,
            };
            match sub.kind {
                "trunc" => rf.eof_at = Some(at),
                "rerr" => rf.error_at = Some(at),
                "flip" => bytes[at] ^= 1 << sub.bit,
                "ptrunc" => bytes = gzip(&text.as_bytes()[..at], 6),
                _ => {}
            }
            let mut reader = SimReader::new(bytes, rf, Decisions::new(nums("r_dec")));
            let keys: Vec<&str> = if sub.dd { vec![DEDUP_KEY] } else { vec![] };
            let res = catch_unwind(AssertUnwindSafe(|| import_tenant_with_dedup(&mut g, &mut reader, &keys).map(|st| (st.node_count, st.merged_count)).map_err(|e| e.to_string())));
            o.steps += 1 + reader.stats.calls;
            let pin = json!({"tk":sub.tk,"dd":sub.dd,"kind":sub.kind,"at":at,"bit":sub.bit});
            let ddn = if sub.dd { "dedup" } else { "plain" };
            let cfgname = format!("target {} / {}", TK_NAMES[sub.tk], if sub.dd { "dedup on key" } else { "no dedup keys" });
            let mut add = |o: &mut Outcome, sig: String, detail: String| {
                if sigs_seen.insert(sig.clone()) && o.violations.len() < 16 {
                    o.violate(Violation::new(sig, detail, o.evaluations as usize).with_pin(pin.clone()));
                }
            };
            let outcome_class: String;
            match res {
                Err(_) => {
                    add(&mut o, format!("C13/import_panicked/{}", sub.kind), format!("[{cfgname}] import panicked ({} at {at})", sub.kind));
                    outcome_class = "panic".into();
                }
                Ok(Err(msg)) => {
                    if sub.kind == "none" {
                        add(&mut o, format!("C13/unmodified_import_failed/{ddn}"), format!("[{cfgname}] import of the unmodified snapshot failed: {msg}"));
                    } else {
                        o.fault(sub.kind);
                        o.probe(&format!("failed_import/{}", sub.kind));
                    }
                    let after = dump(&g);
                    let va = views(&g);
                    if sub.tk == 0 && !g.all_labels().is_empty() {
                        o.probe("rolled_back_after_partial_apply");
                    }
                    let diffs = failed_import_diff(&before, &after, &vb, &va);
                    outcome_class = format!("err:{}", diffs.iter().map(|d| d.0.clone()).collect::<BTreeSet<_>>().into_iter().collect::<Vec<_>>().join("+"));
                    for (class, detail) in diffs {
                        add(&mut o, format!("C13/failed_import/{ddn}/{class}"), format!("[{cfgname}; {} at byte {at}; error: {msg}] {detail}", sub.kind));
                    }
                }
                Ok(Ok((_created, merged))) => {
                    if sub.kind == "none" {
                        o.probe("ok_unmodified");
                        let after = dump(&g);
                        let (diffs, merges) = ok_import_diff(&before, &sdump, &after, sub.dd);
                        if merges > 0 {
                            o.probe("merge_happened");
                            if sub.tk == 1 {
                                merged_in_matching = true;
                            }
                        }
                        if merged as usize != merges && diffs.is_empty() {
                            o.probe("merged_count_stat_differs_from_model");
                        }
                        outcome_class = format!("ok:{}", diffs.len());
                        for (class, detail) in diffs {
                            add(&mut o, format!("C13/ok_import/{ddn}/{class}"), format!("[{cfgname}] {detail}"));
                        }
                    } else {
                        o.probe(&format!("ok_on_modified_stream/{}", sub.kind));
                        // Which modified streams have a known "the snapshot"?
                        //  trunc / rerr: the bytes that were delivered are a prefix of the
                        //    unmodified stream, so the snapshot is S.
                        //  flip: a reference decode of the damaged bytes either fails (not a
                        //    valid stream at all: Ok cannot be the import of some other
                        //    snapshot), or gives the same text (S), or — CRC collision, never
                        //    seen — another text (then only counted).
                        //  ptrunc: a well-formed gzip of a cut file.  Cut at a record boundary it
                        //    is a valid shorter snapshot, whose content is the records before
                        //    the cut; cut inside a record (the importer skips a line too short
                        //    to show its record type) the snapshot's nodes and relationships are
                        //    still those of the whole records — a record that is not there
                        //    cannot be "the snapshot's".  Judged against that content, under
                        //    separate signatures for the two cases.
                        let mut expect: &Dump = &sdump;
                        let cut: (Dump, bool);
                        let (judged, area) = match sub.kind {
                            "ptrunc" => {
                                cut = prefix_snapshot(&text, at, &sdump);
                                expect = &cut.0;
                                (true, if cut.1 { "cut_record_import" } else { "shorter_snapshot_import" })
                            }
                            "trunc" => (true, "truncated_import"),
                            "rerr" => (true, "reader_error_import"),
                            "flip" => {
                                let mut damaged = snap.clone();
                                damaged[at] ^= 1 << sub.bit;
                                match gunzip(&damaged) {
                                    Ok(t) if t != text.as_bytes() => {
                                        o.probe("flip_decodes_to_other_text");
                                        (false, "")
                                    }
                                    Ok(_) => {
                                        o.probe("flip_leaves_text_intact");
                                        (true, "bit_flip_import")
                                    }
                                    Err(_) => (true, "bit_flip_import"),
                                }
                            }
                            _ => (false, ""),
                        };
                        if judged {
                            let after = dump(&g);
                            match faulty_ok_class(&before, expect, &after, sub.dd) {
                                None => {
                                    if sub.kind == "ptrunc" {
                                        o.probe(&format!("ok_{area}_{}", if expect.nodes.is_empty() { "header_only" } else if expect.edges.is_empty() { "nodes_only" } else { "nodes_and_relationships" }));
                                    }
                                    o.probe(&format!("ok_on_modified_stream_with_full_content/{}", sub.kind));
                                    outcome_class = "ok-modified-full".into();
                                }
                                Some((class, detail)) => {
                                    outcome_class = format!("ok-modified:{class}");
                                    add(&mut o, format!("C13/{area}/{ddn}/{class}"), format!("[{cfgname}; {} at byte {at} of {len}] {detail}", sub.kind));
                                }
                            }
                        } else {
                            outcome_class = "ok-modified".into();
                        }
                    }
                }
            }
            hash = fnv1a(format!("{hash:x}|{}{}{}{}:{outcome_class}", sub.tk, sub.dd, sub.kind, at).as_bytes());
        }
        o.nontrivial = sdump.nodes.len() >= 2 && !sdump.edges.is_empty() && (merged_in_matching || case.pin().is_some());
        o.class_key = hash_str(&format!("{}|{}|{}", sdump.canonical(), t_canon, case.knob_bool("int_keys", false)));
        o.state_hash = hash;
        o
    }
}
