//! C05 — a write statement that fails changes nothing.
//!
//! Sim: the fault is a *planted failure*.  A small graph is built by a fixed-shape setup
//! (k "row" nodes :R, a few bystanders, optional property index / unique constraint,
//! PRNG-chosen extras incl. adjacency compaction and freed ids); then one multi-row write
//! statement (row source: UNWIND list / MATCH / MATCH .. ORDER BY / UNWIND+MATCH) of one
//! write kind (CREATE, MERGE, SET, REMOVE, LABEL, DELETE) is executed in which exactly one
//! row is poisoned so that it fails with one failure kind (integer division by zero, type
//! error in an operand, duplicate value under a unique constraint, write to a node deleted
//! earlier in the statement, plain DELETE of a node that keeps a relationship the clause does
//! not name), at one failure site (the write's own expression, a WHERE before it, a RETURN
//! after it, the projection of a WITH between row source and write clause — `MATCH (n:R)
//! WITH n, 10 / n.d AS q SET ..`, `UNWIND .. AS x WITH x, 10 / x AS q CREATE ..`, bare,
//! sorting, or behind a sorting WITH).  The label :A carries one to three unique constraints (u, k, w — knob).
//! The failing row position is ENUMERATED 0..k-1 inside
//! `execute` (one sub-execution per position, pinned for replay).
//!
//! Oracle (only when the statement returns Err): the store equals a twin built by
//! replaying the same setup — dump with ids (row-first property view), the column-first
//! property view of every node (`node_properties_merged`, what `RETURN n.k` reads: the two
//! property stores must both be unchanged), label/type index views, property-index and
//! constraint-index contents, counts, schema; index-forced reads; constraint behaviour
//! (probe writes that must succeed/fail alike); and the graphs still agree by content
//! after the probe writes (latent state such as stale column cells under a freed id).

use crate::kit::core::*;
use crate::kit::cy::*;
use crate::kit::dump::{bag, dump, rows_canon, Dump};
use crate::kit::model::*;
use crate::kit::rng::{Rng, Streams};
use samyama::graph::{GraphStore, PropertyValue};
use samyama::query::QueryEngine;
use serde_json::{json, Value};
use std::collections::BTreeSet;

pub struct C05;

const LABELS: [&str; 6] = ["A", "B", "R", "C", "Z", "P"];
const TYPES: [&str; 2] = ["T", "U"];
const KEYS: [&str; 7] = ["k", "v", "u", "d", "w", "z", "x"];

#[derive(Clone, Debug)]
struct Spec {
    k: usize,
    wk: String,
    fk: String,
    src: String,
    site: String,
    form: u64,
    index: bool,
    constraint: bool,
    /// further unique constraints on :A besides (A, u): bit 0 = (A, k), bit 1 = (A, w)
    c2: u64,
    with_c: bool,
}

impl Spec {
    fn from(case: &Case, ev: &Value) -> Spec {
        let fk = s(ev, "fk").to_string();
        let wk = s(ev, "wk").to_string();
        let form = u(ev, "form");
        Spec {
            k: (if ev.get("k").is_some() { u(ev, "k") } else { case.knob_u64("k", 3) } as usize).clamp(1, 5),
            with_c: fk == "deleted_node" || (wk == "DELETE" && form % 3 != 1) || (case.knob_bool("with_c", false) && !(wk == "DELETE" && form % 3 == 1)),
            constraint: case.knob_bool("constraint", false) || fk == "dup",
            c2: case.knob_u64("constraint2", 0) % 4,
            index: case.knob_bool("index", false),
            wk,
            fk,
            src: s(ev, "src").to_string(),
            site: s(ev, "site").to_string(),
            form,
        }
    }
    /// Row nodes carry :A unless the statement is the one that adds it.
    fn row_labels(&self) -> &'static str {
        if self.wk == "LABEL" && self.fk == "dup" {
            ":B:R"
        } else if self.form % 2 == 1 && self.wk != "LABEL" {
            ":A:B:R"
        } else {
            ":A:R"
        }
    }
    fn site_class(&self) -> &'static str {
        match self.site.as_str() {
            "where" => "fail_before_write",
            "return" => "fail_after_write",
            // the failing expression sits in the projection of a WITH between the row source and
            // the write clause
            "with" => "fail_in_with_projection",
            _ => "fail_in_write",
        }
    }
    fn desc(&self) -> bool {
        self.src == "match_desc" || (self.src == "unwind_match" && self.form % 2 == 1)
    }
}

fn poison_operand(fk: &str) -> &'static str {
    match fk {
        "div0" => "0",
        "type" => "'s'",
        _ => "1",
    }
}

/// The setup statements (identical for the store under test and its twin), for poison at row `p`.
fn setup(spec: &Spec, extras: &[&Value], p: usize) -> Vec<String> {
    let mut q: Vec<String> = Vec::new();
    if spec.index {
        q.push("CREATE INDEX ON :A(v)".into());
        q.push("CREATE INDEX ON :R(v)".into());
    }
    if spec.constraint {
        q.push("CREATE CONSTRAINT ON (n:A) ASSERT n.u IS UNIQUE".into());
        // a label with several unique constraints: every row value of k and w is distinct, so
        // only the planted duplicate (on u) ever collides
        if spec.c2 & 1 == 1 {
            q.push("CREATE CONSTRAINT ON (n:A) ASSERT n.k IS UNIQUE".into());
        }
        if spec.c2 & 2 == 2 {
            q.push("CREATE CONSTRAINT ON (n:A) ASSERT n.w IS UNIQUE".into());
        }
    }
    q.push("CREATE (a:A:P {k: 50, u: 150, v: 1})-[:U]->(b:B:P {k: 51, v: 2})".into());
    for i in 0..spec.k {
        let d = if i == p && (spec.fk == "div0" || spec.fk == "type") { poison_operand(&spec.fk).to_string() } else { format!("{}", 1 + i) };
        let w = if i == p && spec.fk == "dup" { 150 } else { 200 + i };
        let uval = if i == p && spec.fk == "dup" && spec.wk == "LABEL" { 150 } else { 100 + i };
        q.push(format!("CREATE (:{} {{k: {}, v: {}, u: {uval}, d: {d}, w: {w}}})", &spec.row_labels()[1..], 10 + i, i % 3));
    }
    if spec.with_c {
        for i in 0..spec.k {
            // rows p-1 and p share one target, so that "deleted earlier in the statement" lands on row p
            let shared = spec.fk == "deleted_node" && i == p && p >= 1;
            if shared {
                q.push(format!("MATCH (n:R {{k: {}}}), (c:C {{k: {}}}) CREATE (n)-[:T]->(c)", 10 + i, 30 + i - 1));
            } else {
                q.push(format!("MATCH (n:R {{k: {}}}) CREATE (n)-[:T]->(c:B:C {{k: {}, v: 0}})", 10 + i, 30 + i));
            }
        }
    }
    if spec.fk == "connected" {
        // the poisoned row keeps one relationship that the DELETE clause does not name
        let kk = 10 + p.min(spec.k - 1);
        if (spec.form / 3) % 2 == 0 {
            q.push(format!("MATCH (a:P {{k: 50}}), (b:R {{k: {kk}}}) CREATE (a)-[:U]->(b)"));
        } else {
            q.push(format!("MATCH (a:P {{k: 51}}), (b:R {{k: {kk}}}) CREATE (b)-[:U]->(a)"));
        }
    }
    for (j, e) in extras.iter().enumerate() {
        match u(e, "kind") % 5 {
            0 => q.push(format!("CREATE (:A {{k: {}, v: {}, u: {}}})", 60 + j, j % 3, 160 + j)),
            1 => q.push(format!("MATCH (a:P {{k: 50}}), (b:R {{k: {}}}) CREATE (a)-[:U]->(b)", 10 + (u(e, "r") as usize % spec.k))),
            2 => {
                q.push(format!("CREATE (:B {{k: {}, v: 7, x: 'stale'}})", 70 + j));
                q.push(format!("MATCH (n:B {{k: {}}}) DELETE n", 70 + j));
            }
            3 => q.push("#compact".into()),
            _ => q.push("CREATE INDEX ON :B(v)".into()),
        }
    }
    q
}

/// The statement under test for poison at row `p`, and the keys of nodes each row would create.
fn statement(spec: &Spec, p: usize) -> (String, Vec<i64>) {
    let k = spec.k;
    let own = spec.site == "own";
    let unwind_src = spec.src == "unwind";
    let opnd = if unwind_src { "x" } else { "n.d" };
    let fe = format!("10 / {opnd}");
    // (site `with`: the write uses the projected value in half of the forms, a constant in the others)
    let uses_q = spec.site == "with" && (spec.form / 2) % 2 == 0;
    let fe_own = if own && (spec.fk == "div0" || spec.fk == "type") { fe.clone() } else if uses_q { "q".to_string() } else { "1".to_string() };
    let set_val = if uses_q { "q" } else { "99" };
    // ---- source
    let mut created: Vec<i64> = Vec::new();
    let list: Vec<String> = (0..k)
        .map(|i| {
            if spec.fk == "dup" {
                if i == p { "150".to_string() } else { format!("{}", 300 + i) }
            } else if i == p && (spec.fk == "div0" || spec.fk == "type") {
                poison_operand(&spec.fk).to_string()
            } else {
                format!("{}", i + 1)
            }
        })
        .collect();
    let order: Vec<usize> = if spec.desc() { (0..k).rev().collect() } else { (0..k).collect() };
    let klist = order.iter().map(|i| format!("{}", 10 + i)).collect::<Vec<_>>().join(", ");
    let wh = if spec.site == "where" { format!(" WHERE {fe} > 0") } else { String::new() };
    let wh_and = if spec.site == "where" { format!(" AND {fe} > 0") } else { String::new() };
    let uses_c = spec.fk == "deleted_node" || (spec.wk == "DELETE" && spec.form % 3 == 2) || (spec.fk == "connected" && spec.form % 3 != 1);
    let pat = if uses_c { "(n:R)-[r:T]->(c:C)" } else { "(n:R)" };
    let carry = if uses_c { "n, r, c" } else { "n" };
    let with_site = spec.site == "with";
    let source = match spec.src.as_str() {
        // ---- failure planted inside the projection of a WITH that precedes the write clause.  A WITH
        // ends the reading part of the statement: its whole projection is evaluated before the first row
        // reaches the write clause, so the failure precedes any write at every row position.  Forms: a
        // bare projection, a projection that also sorts, and a bare projection behind a sorting WITH.
        "unwind" if with_site => format!("UNWIND [{}] AS x WITH x, {fe} AS q", list.join(", ")),
        "match_asc" | "match_desc" if with_site => {
            let dir = if spec.src == "match_desc" { " DESC" } else { "" };
            if spec.form % 4 >= 2 {
                format!("MATCH {pat} WITH {carry}, {fe} AS q ORDER BY n.k{dir}")
            } else {
                format!("MATCH {pat} WITH {carry} ORDER BY n.k{dir} WITH {carry}, {fe} AS q")
            }
        }
        "unwind_match" if with_site => format!("UNWIND [{klist}] AS x MATCH {pat} WHERE n.k = x WITH x, {carry}, {fe} AS q"),
        _ if with_site => format!("MATCH {pat} WITH {carry}, {fe} AS q"),
        "unwind" => {
            if spec.site == "where" {
                format!("UNWIND [{}] AS x WITH x WHERE {fe} > 0", list.join(", "))
            } else {
                format!("UNWIND [{}] AS x", list.join(", "))
            }
        }
        "match_asc" => {
            if spec.form % 4 >= 2 {
                format!("MATCH {pat}{wh} WITH {carry} ORDER BY n.k")
            } else {
                format!("MATCH {pat} WITH {carry} ORDER BY n.k{wh}")
            }
        }
        "match_desc" => format!("MATCH {pat} WITH {carry} ORDER BY n.k DESC{wh}"),
        "unwind_match" => format!("UNWIND [{klist}] AS x MATCH {pat} WHERE n.k = x{wh_and}"),
        _ => format!("MATCH {pat}{wh}"),
    };
    // ---- write clause
    let w: String = match (spec.wk.as_str(), spec.fk.as_str()) {
        ("CREATE", "deleted_node") => {
            if spec.form % 2 == 0 { "DETACH DELETE c CREATE (n)-[:U]->(c)".into() } else { "CREATE (n)-[:U]->(c) DETACH DELETE c".into() }
        }
        ("MERGE", "deleted_node") => "DETACH DELETE c MERGE (n)-[:U]->(c)".into(),
        ("SET", "deleted_node") => {
            if spec.form % 2 == 0 { "DETACH DELETE c SET c.v = 2".into() } else { "SET c.v = 2 DETACH DELETE c".into() }
        }
        ("LABEL", "deleted_node") => "DETACH DELETE c SET c:Z".into(),
        ("CREATE", fk) => {
            if unwind_src {
                for e in &list {
                    created.push(e.parse::<i64>().map(|x| 1000 + x).unwrap_or(-1));
                }
                if fk == "dup" {
                    "CREATE (m:A {k: 1000 + x, u: x})".into()
                } else if spec.form % 2 == 0 {
                    format!("CREATE (m:A {{k: 1000 + x, v: {fe_own}}})")
                } else {
                    format!("CREATE (m:A {{k: 1000 + x}})-[:T]->(q:B {{k: 1000 + x, v: {fe_own}}})")
                }
            } else {
                for i in 0..k {
                    created.push(1010 + i as i64);
                }
                if fk == "dup" {
                    "CREATE (m:A {k: n.k + 1000, u: n.w})".into()
                } else if spec.form % 2 == 0 {
                    format!("CREATE (m:B {{k: n.k + 1000, v: {fe_own}}})")
                } else {
                    format!("CREATE (n)-[:T]->(m:B {{k: n.k + 1000, v: {fe_own}}})")
                }
            }
        }
        ("MERGE", fk) => {
            if unwind_src {
                for e in &list {
                    created.push(e.parse::<i64>().map(|x| 1000 + x).unwrap_or(-1));
                }
                if fk == "dup" { "MERGE (m:A {k: 1000 + x, u: x})".into() } else { format!("MERGE (m:A {{k: 1000 + x}}) ON CREATE SET m.v = {fe_own}") }
            } else {
                for i in 0..k {
                    created.push(1010 + i as i64);
                }
                if fk == "dup" {
                    "MERGE (m:A {k: n.k + 1000, u: n.w})".into()
                } else if spec.form % 2 == 0 {
                    format!("MERGE (m:B {{k: n.k + 1000}}) ON CREATE SET m.v = {fe_own}")
                } else {
                    format!("MERGE (m:B {{k: n.k + 1000}}) ON CREATE SET m.v = {fe_own}, m.z = 1")
                }
            }
        }
        ("SET", "dup") => match spec.form % 3 {
            0 => "SET n.u = n.w".into(),
            1 => "SET n.v = 99, n.u = n.w".into(),
            _ => "SET n += {v: 99, u: n.w}".into(),
        },
        ("SET", _) => {
            if own {
                format!("SET n.v = {fe}")
            } else {
                match spec.form % 3 {
                    0 => format!("SET n.v = {set_val}"),
                    1 => format!("SET n.v = {set_val}, n.z = 1"),
                    _ => format!("SET n += {{v: {set_val}}}"),
                }
            }
        }
        ("REMOVE", _) => {
            if spec.form % 2 == 0 { "REMOVE n.v".into() } else { "REMOVE n.v, n.u".into() }
        }
        ("LABEL", "dup") => "SET n:A".into(),
        ("LABEL", _) => match spec.form % 3 {
            0 => "SET n:Z".into(),
            1 => "REMOVE n:A".into(),
            _ => "SET n:Z:B".into(),
        },
        // refused because the node keeps a relationship: the clause names none (`DELETE n`), or the
        // row's :T relationship (and its target) but not the :U one
        ("DELETE", "connected") => match (spec.form % 3, spec.form % 12 >= 6) {
            (0, false) => "DELETE n, r".into(),
            (0, true) => "DELETE n, r, c".into(),
            (1, _) => "DELETE n".into(),
            (_, false) => "DELETE r, n".into(),
            (_, true) => "DELETE c, r, n".into(),
        },
        ("DELETE", _) => match spec.form % 3 {
            0 => "DETACH DELETE n".into(),
            1 => "DELETE n".into(),
            _ => "DELETE r".into(),
        },
        _ => "SET n.v = 99".into(),
    };
    // ---- tail
    let tail = if spec.site == "return" {
        if spec.src == "unwind_match" && spec.wk == "DELETE" && spec.form % 3 != 2 {
            // the row node is gone; let the failure come from the node that is still bound by value
            format!(" RETURN {}", fe)
        } else {
            format!(" RETURN {fe}")
        }
    } else {
        String::new()
    };
    (format!("{source} {w}{tail}"), created)
}

fn uses_r(spec: &Spec) -> bool {
    spec.fk == "connected" && spec.form % 3 != 1
}

fn int_prop(n: &crate::kit::dump::GNode, key: &str) -> Option<i64> {
    n.props.get(key).and_then(|s| s.strip_prefix("I:")).and_then(|s| s.parse().ok())
}

/// Which rows' entities differ between the pre-state and the post-state.
fn changed_rows(spec: &Spec, created: &[i64], pre: &Dump, post: &Dump) -> (BTreeSet<usize>, bool) {
    let mut rows = BTreeSet::new();
    let mut unattributed = false;
    let row_of_key = |kk: i64| -> Option<usize> {
        if (10..10 + spec.k as i64).contains(&kk) {
            return Some((kk - 10) as usize);
        }
        if (30..30 + spec.k as i64).contains(&kk) {
            return Some((kk - 30) as usize);
        }
        created.iter().position(|c| *c == kk && kk >= 0)
    };
    let row_of_node = |id: u64| -> Option<usize> {
        let n = pre.nodes.get(&id).or_else(|| post.nodes.get(&id))?;
        row_of_key(int_prop(n, "k")?)
    };
    let ids: BTreeSet<u64> = pre.nodes.keys().chain(post.nodes.keys()).cloned().collect();
    for id in ids {
        if pre.nodes.get(&id) != post.nodes.get(&id) {
            // a node present on both sides under the same id but with another key is two changes
            let mut any = false;
            for side in [pre.nodes.get(&id), post.nodes.get(&id)].into_iter().flatten() {
                if let Some(r) = int_prop(side, "k").and_then(row_of_key) {
                    rows.insert(r);
                    any = true;
                }
            }
            if !any {
                unattributed = true;
            }
        }
    }
    let eids: BTreeSet<u64> = pre.edges.keys().chain(post.edges.keys()).cloned().collect();
    for id in eids {
        if pre.edges.get(&id) != post.edges.get(&id) {
            let mut any = false;
            for side in [pre.edges.get(&id), post.edges.get(&id)].into_iter().flatten() {
                for end in [side.src, side.dst] {
                    if let Some(r) = row_of_node(end) {
                        rows.insert(r);
                        any = true;
                    }
                }
            }
            if !any {
                unattributed = true;
            }
        }
    }
    (rows, unattributed)
}

fn all_values(g: &GraphStore, out: &mut Vec<PropertyValue>) {
    for n in g.all_nodes() {
        for (_, v) in g.node_properties_full(n.id) {
            if !out.contains(&v) {
                out.push(v);
            }
        }
    }
}

/// Column-first view of every live node (`GraphStore::node_properties_merged`: the column wins on a clash).
fn merged_view(g: &GraphStore) -> std::collections::BTreeMap<u64, std::collections::BTreeMap<String, String>> {
    g.all_nodes().iter().map(|n| (n.id.as_u64(), crate::kit::dump::canon_props(g.node_properties_merged(n.id).iter()))).collect()
}

fn build(eng: &QueryEngine, stmts: &[String]) -> Result<GraphStore, String> {
    let mut g = GraphStore::new();
    for q in stmts {
        if q == "#compact" {
            g.compact_adjacency();
            continue;
        }
        match exec_mut(eng, &mut g, q) {
            Run::Ok(_) => {}
            other => return Err(format!("{q}: {}", other.err_text())),
        }
    }
    Ok(g)
}

const WKS: [&str; 6] = ["CREATE", "MERGE", "SET", "REMOVE", "LABEL", "DELETE"];

fn gen_stmt(r: &mut Rng, k: u64) -> Value {
    let wk = WKS[r.usize_below(6)];
    let fk = match wk {
        "CREATE" | "MERGE" | "SET" | "LABEL" => ["div0", "type", "dup", "deleted_node", "div0", "type", "dup"][r.usize_below(7)],
        "DELETE" => ["div0", "type", "connected", "connected"][r.usize_below(4)],
        _ => ["div0", "type"][r.usize_below(2)],
    };
    let (src, site) = match fk {
        "connected" => (["match", "match_asc", "match_desc", "unwind_match"][r.usize_below(4)], "own"),
        "dup" => {
            let src = if wk == "CREATE" || wk == "MERGE" { ["unwind", "match", "match_asc"][r.usize_below(3)] } else { ["match", "match_asc", "match_desc", "unwind_match"][r.usize_below(4)] };
            (src, "own")
        }
        "deleted_node" => (["match_asc", "match_asc", "match"][r.usize_below(3)], "own"),
        _ => {
            let src = if wk == "CREATE" || wk == "MERGE" { ["unwind", "unwind", "match", "match_asc"][r.usize_below(4)] } else { ["match", "match_asc", "match_desc", "unwind_match"][r.usize_below(4)] };
            let site = if wk == "CREATE" || wk == "MERGE" { ["own", "own", "where", "return", "with"][r.usize_below(5)] } else if wk == "SET" { ["own", "where", "return", "return", "with"][r.usize_below(5)] } else { ["where", "return", "with"][r.usize_below(3)] };
            (src, site)
        }
    };
    json!({"op":"stmt","wk":wk,"fk":fk,"src":src,"site":site,"form":r.below(12),"k":k})
}

impl Scenario for C05 {
    fn id(&self) -> &'static str {
        "C05"
    }
    fn level(&self) -> &'static str {
        "fault_enumeration"
    }
    fn runs(&self, tier: Tier) -> u64 {
        match tier {
            Tier::Quick => 6_000,
            Tier::Thorough => 100_000,
        }
    }
    fn stack_mb(&self) -> usize {
        16
    }
    fn rule(&self) -> &'static str {
        "case = (graph variant, one multi-row write statement): k<=5 row nodes plus bystanders, knobs {property index, unique constraint, extra relationships, compaction, freed ids}; statement = row source {UNWIND, MATCH, MATCH..ORDER BY asc/desc, UNWIND+MATCH} x write kind {CREATE, MERGE, SET, REMOVE, LABEL, DELETE} x failure kind {div0, type, dup (label :A under 1-3 unique constraints), deleted_node, connected (plain DELETE of a node that keeps a relationship the clause does not name)} x failure site {in the write's own expression, WHERE before it, RETURN after it, projection of a WITH between source and write (bare / sorting / behind a sorting WITH)}; the poisoned row position is enumerated 0..k-1 (one sub-execution each). Non-trivial = at least one sub-execution failed at run time (the planted failure fired). Distinct = hash of (k, knobs, statement shape, extras)."
    }
    fn real_components(&self) -> Vec<&'static str> {
        vec!["samyama::query::QueryEngine (parser, planner, MutQueryExecutor::execute_plan_mut, write operators)", "GraphStore mutators, label/type indexes, ColumnStore", "IndexManager property and constraint indexes"]
    }
    fn stub_components(&self) -> Vec<&'static str> {
        vec!["pre-state twin: GraphStore is not Clone, so the pre-state is a second store built by replaying the same setup statements (equality of the two dumps is checked before the statement runs)"]
    }
    fn assumptions(&self) -> Vec<&'static str> {
        vec![
            "nothing is asserted when the statement returns Ok (swallowed failures and wrong effects are C04/C01 matters); planning-time refusals are counted separately",
            "free-list state and id allocation are not 'the graph': ids handed to later writes are not compared, contents are",
            "which node the constraint index names as holder is not compared (hash-order dependent when several are recorded), only whether a value is held, plus probe writes",
            "a failure planted in the projection of a WITH that precedes the write clause has its own row class ('row>0_fail_in_with_projection', 'row0_fail_in_with_projection', single-row 'fail_in_with_projection'): today such a statement leaves the graph untouched at every row position, so none of these is a listed finding",
            "node properties are compared in both views: row-first (dump, `node_properties_full`) and column-first (`node_properties_merged`, the order `n.k` is resolved in queries), each against the twin's",
            "row classes in signatures: 'row>0' = entities of rows other than the poisoned one stayed changed; 'row0_*' = only the poisoned row's own entities (or unattributable ones) changed, qualified by where the failure sits relative to that row's write",
        ]
    }
    fn required_probes(&self, _tier: Tier) -> Vec<&'static str> {
        vec![
            "stmt_failed_at_runtime",
            "stmt_failed_unchanged",
            "index_scan_chosen",
            "constraint_probe_refused",
            "poison_at_last_row",
            "poison_at_first_row",
            "set_label_refused_under_several_constraints",
            "delete_refused_naming_some_relationships",
            "delete_refused_naming_no_relationship",
            "failed_in_with_projection_graph_unchanged",
            "failed_in_with_projection_after_first_row",
            "constrained_set_refused_both_property_stores_unchanged",
        ]
    }
    fn generate(&self, s: &mut Streams, _run_index: u64, _tier: Tier) -> Case {
        let mut case = Case::new("C05");
        let k = [1u64, 2, 2, 3, 3, 3, 4, 5][s.knobs.usize_below(8)];
        case.knobs.insert("index".into(), json!(s.knobs.chance(1, 2)));
        case.knobs.insert("constraint".into(), json!(s.knobs.chance(1, 2)));
        case.knobs.insert("with_c".into(), json!(s.knobs.chance(1, 3)));
        case.knobs.insert("constraint2".into(), json!([0u64, 0, 1, 2, 3, 3][s.knobs.usize_below(6)]));
        let n_extra = s.knobs.short_len(0, 5);
        for _ in 0..n_extra {
            case.events.push(json!({"op":"extra","kind":s.workload.below(5),"r":s.workload.below(8)}));
        }
        case.events.push(gen_stmt(&mut s.fault, k));
        case
    }
    fn shrink_event(&self, ev: &Value) -> Vec<Value> {
        let mut out = Vec::new();
        if op(ev) == "stmt" {
            for f in [0u64, 1, 2] {
                let mut e = ev.clone();
                e["form"] = json!(f);
                out.push(e);
            }
            let k = u(ev, "k");
            if k > 2 {
                let mut e = ev.clone();
                e["k"] = json!(k - 1);
                out.push(e);
            }
            if s(ev, "src") != "match" && s(ev, "src") != "unwind" {
                let mut e = ev.clone();
                e["src"] = json!("match_asc");
                out.push(e);
            }
        }
        out
    }
    fn execute(&self, case: &Case) -> Outcome {
        let mut o = Outcome::new();
        let Some(stmt_ev) = case.events.iter().find(|e| op(e) == "stmt") else {
            o.state_hash = 1;
            return o;
        };
        let extras: Vec<&Value> = case.events.iter().filter(|e| op(e) == "extra").collect();
        let mut spec = Spec::from(case, stmt_ev);
        // shrinking k is done through the knob
        spec.k = spec.k.clamp(1, 5);
        let positions: Vec<usize> = match case.pin().and_then(|p| p.get("p")).and_then(|x| x.as_u64()) {
            Some(p) => vec![(p as usize).min(spec.k - 1)],
            None => (0..spec.k).collect(),
        };
        o.evaluations = positions.len() as u64;
        let mut trace: Vec<String> = Vec::new();
        let mut any_runtime_failure = false;
        for &p in &positions {
            let pin = json!({"p": p});
            let stmts = setup(&spec, &extras, p);
            let (q, created) = statement(&spec, p);
            let eng = QueryEngine::new();
            let twin_eng = QueryEngine::new();
            let (mut g, mut twin) = match (build(&eng, &stmts), build(&twin_eng, &stmts)) {
                (Ok(a), Ok(b)) => (a, b),
                (Err(e), _) | (_, Err(e)) => {
                    o.probe("setup_refused");
                    trace.push(format!("p{p}:setup_refused:{}", err_class(&e)));
                    continue;
                }
            };
            let pre = dump(&twin);
            if dump(&g) != pre {
                o.violate(Violation::new("C05/harness/twin_differs_before_statement", format!("{} vs {}", dump(&g).describe(), pre.describe()), 0).with_pin(pin));
                break;
            }
            o.steps += stmts.len() as u64 + 1;
            if p == 0 {
                o.probe("poison_at_first_row");
            }
            if p + 1 == spec.k && spec.k > 1 {
                o.probe("poison_at_last_row");
            }
            let run = exec_mut(&eng, &mut g, &q);
            let err = match run {
                Run::Ok(_) => {
                    o.probe("stmt_returned_ok");
                    trace.push(format!("p{p}:ok"));
                    continue;
                }
                Run::Panic(m) => {
                    o.violate(Violation::new(format!("C05/panic/{}/{}", spec.wk, spec.fk), format!("`{q}`: {m}"), p).with_pin(pin));
                    break;
                }
                Run::Err(e) => e,
            };
            let planning = err.starts_with("Planning error") || err.contains("Parse") || err.contains("parse") || err.contains("Syntax");
            if planning {
                o.probe("stmt_refused_at_planning");
            } else {
                o.probe("stmt_failed_at_runtime");
                o.fault(&spec.fk);
                any_runtime_failure = true;
                if spec.wk == "LABEL" && spec.fk == "dup" && spec.c2 != 0 {
                    o.probe("set_label_refused_under_several_constraints");
                }
                if spec.fk == "connected" {
                    o.probe(if uses_r(&spec) { "delete_refused_naming_some_relationships" } else { "delete_refused_naming_no_relationship" });
                }
            }
            // ---- 1. the graph
            let post = dump(&g);
            let ctx = format!("`{q}` failed with `{err}`");
            if post != pre {
                let (rows, unattributed) = changed_rows(&spec, &created, &pre, &post);
                let others: Vec<usize> = rows.iter().cloned().filter(|r| *r != p).collect();
                let sig = if spec.k == 1 {
                    format!("C05/single_row_statement_left_effect/{}/{}/{}", spec.wk, spec.fk, spec.site_class())
                } else if !others.is_empty() && spec.site == "with" {
                    // not the row-by-row streaming of the write clause (the listed `row>0` classes): here the
                    // failure sits upstream of a WITH, i.e. before the first row may reach the write
                    format!("C05/partial_effect/{}/{}/row>0_fail_in_with_projection", spec.wk, spec.fk)
                } else if !others.is_empty() {
                    format!("C05/partial_effect/{}/{}/row>0", spec.wk, spec.fk)
                } else {
                    format!("C05/partial_effect/{}/{}/row0_{}", spec.wk, spec.fk, spec.site_class())
                };
                o.violate(
                    Violation::new(
                        sig,
                        format!("{ctx} (poisoned row {p} of {}), but the graph changed: rows changed {:?}{}; before: {} after: {}", spec.k, rows, if unattributed { " + unattributed entities" } else { "" }, pre.describe(), post.describe()),
                        p,
                    )
                    .with_pin(pin),
                );
                trace.push(format!("p{p}:err:changed"));
                break;
            }
            // ---- 2. secondary structures
            let mut domain: Vec<PropertyValue> = vec![PropertyValue::Integer(99), PropertyValue::Integer(150), PropertyValue::Integer(2), PropertyValue::Integer(10), PropertyValue::Integer(5), PropertyValue::Integer(3), PropertyValue::Integer(1)];
            all_values(&g, &mut domain);
            for i in 0..spec.k as i64 {
                for base in [100, 200, 300, 1000, 1010] {
                    let v = PropertyValue::Integer(base + i);
                    if !domain.contains(&v) {
                        domain.push(v);
                    }
                }
            }
            let va = views(&g, &LABELS, &TYPES, &KEYS, &domain);
            let vb = views(&twin, &LABELS, &TYPES, &KEYS, &domain);
            let d = va.diff(&vb);
            if let Some((view, detail)) = d.first() {
                o.violate(Violation::new(format!("C05/index_differs_graph_equal/{view}/{}/{}", spec.wk, spec.fk), format!("{ctx}; graph unchanged but {view} differs (after vs before): {detail}"), p).with_pin(pin));
                trace.push(format!("p{p}:err:view:{view}"));
                break;
            }
            // ---- 2b. the column-first view of every node.  Node properties live in two stores (the row map
            // on the node and the column store); `dump` reads row-first (`node_properties_full`), the query
            // path (`n.k` in RETURN / WHERE) and `node_properties_merged` read column-first.  A failed
            // statement must leave BOTH as they were: compare the column-first view with the twin's.
            let (ma, mb) = (merged_view(&g), merged_view(&twin));
            if ma != mb {
                let diff: Vec<String> = ma.iter().filter(|(id, m)| mb.get(*id) != Some(*m)).map(|(id, m)| format!("node {id}: column-first view {:?}, before {:?}, row-first view now {:?}", m, mb.get(id), post.nodes.get(id).map(|n| &n.props))).collect();
                o.violate(Violation::new(format!("C05/index_differs_graph_equal/column_store/{}/{}", spec.wk, spec.fk), format!("{ctx}; the row-first view of the graph is unchanged but the column-first view (node_properties_merged, what `RETURN n.k` reads) differs: {}", diff.join("; ")), p).with_pin(pin));
                trace.push(format!("p{p}:err:view:column_store"));
                break;
            }
            if spec.wk == "SET" && spec.fk == "dup" {
                o.probe("constrained_set_refused_both_property_stores_unchanged");
            }
            // ---- 3. index-forced reads
            let mut bad = None;
            for rq in ["MATCH (n:A) WHERE n.v = 1 RETURN n.k", "MATCH (n:A {v: 99}) RETURN n.k", "MATCH (n:R) WHERE n.v = 0 RETURN n.k", "MATCH (n:A {u: 150}) RETURN n.k", "MATCH (n:Z) RETURN n.k", "MATCH (n:B) WHERE n.v = 2 RETURN n.k", "MATCH (n)-[r:T]->(m) RETURN n.k, m.k", "MATCH (n)-[r:U]->(m) RETURN n.k, m.k", "MATCH (n) RETURN n.k, n.v, n.u, n.w, n.d, n.z, n.x", "MATCH (n:R) WHERE n.u = 150 RETURN n.k"] {
                if spec.index && rq.contains("n.v = 1") {
                    if let Run::Ok(b) = exec_read(&eng, &g, &format!("EXPLAIN {rq}")) {
                        if rows_canon(&b, &g, false).join(" ").contains("IndexScan") {
                            o.probe("index_scan_chosen");
                        }
                    }
                }
                let ra = exec_read(&eng, &g, rq);
                let rb = exec_read(&twin_eng, &twin, rq);
                let ca = match &ra { Run::Ok(b) => format!("{:?}", bag(rows_canon(b, &g, false))), other => format!("ERR {}", other.err_text()) };
                let cb = match &rb { Run::Ok(b) => format!("{:?}", bag(rows_canon(b, &twin, false))), other => format!("ERR {}", other.err_text()) };
                if ca != cb {
                    bad = Some((rq, ca, cb));
                    break;
                }
            }
            if let Some((rq, ca, cb)) = bad {
                o.violate(Violation::new(format!("C05/index_differs_graph_equal/read_query/{}/{}", spec.wk, spec.fk), format!("{ctx}; graph unchanged but `{rq}` answers {ca}, the untouched twin {cb}"), p).with_pin(pin));
                break;
            }
            // ---- 4. constraint behaviour + latent state: the same probe writes on both stores
            let mut probes: Vec<String> = Vec::new();
            let mut uvals: Vec<i64> = vec![150, 999];
            for i in 0..spec.k as i64 {
                uvals.extend([100 + i, 200 + i, 300 + i]);
            }
            for (j, uv) in uvals.iter().enumerate() {
                probes.push(format!("CREATE (:A {{k: {}, u: {uv}}})", 9000 + j));
            }
            // every further constrained key of :A: each value a row or bystander carries (held
            // exactly when its carrier is an :A node) and one nobody carries
            if spec.constraint {
                for (bit, key, base) in [(1u64, "k", 10i64), (2, "w", 200)] {
                    if spec.c2 & bit == bit {
                        o.probe("multi_constraint_label");
                        for i in 0..spec.k as i64 {
                            probes.push(format!("CREATE (:A {{{key}: {}}})", base + i));
                        }
                        probes.push(format!("CREATE (:A {{{key}: 50}})"));
                        probes.push(format!("CREATE (:A {{{key}: 150}})"));
                        probes.push(format!("CREATE (:A {{{key}: 9500}})"));
                    }
                }
            }
            probes.push("CREATE (:B {k: 9100}), (:B {k: 9101}), (:C {k: 9102}), (:A {k: 9103})".into());
            probes.push("MATCH (n:R) SET n:A".into());
            let mut differs = None;
            for pq in &probes {
                let ra = exec_mut(&eng, &mut g, pq);
                let rb = exec_mut(&twin_eng, &mut twin, pq);
                if ra.is_err() {
                    o.probe("constraint_probe_refused");
                }
                if ra.is_ok() != rb.is_ok() {
                    differs = Some((pq.clone(), ra.err_text(), rb.err_text()));
                    break;
                }
            }
            if let Some((pq, ea, eb)) = differs {
                o.violate(Violation::new(format!("C05/constraint_state_changed/{}/{}", spec.wk, spec.fk), format!("{ctx}; afterwards probe write `{pq}` gives `{ea}` but on the untouched twin `{eb}`"), p).with_pin(pin));
                break;
            }
            let (ca, cb) = (dump(&g).canonical(), dump(&twin).canonical());
            if ca != cb {
                o.violate(Violation::new(format!("C05/latent_state_changed/{}/{}", spec.wk, spec.fk), format!("{ctx}; graph and indexes looked unchanged, but after identical probe writes the graphs differ by content:\n{ca}\nvs twin\n{cb}"), p).with_pin(pin));
                break;
            }
            o.probe("stmt_failed_unchanged");
            if spec.site == "with" && !planning {
                o.probe("failed_in_with_projection_graph_unchanged");
                if p > 0 {
                    o.probe("failed_in_with_projection_after_first_row");
                }
            }
            trace.push(format!("p{p}:err:unchanged"));
        }
        o.nontrivial = any_runtime_failure;
        let shape = format!("{:?}|{:?}", spec, extras.iter().map(|e| (u(e, "kind") % 5, u(e, "r") % 8)).collect::<Vec<_>>());
        o.class_key = hash_str(&shape);
        o.state_hash = hash_str(&trace.join(";"));
        o
    }
}
