//! C17 — persistent storage never mixes tenants.
//!
//! Sim: 2–3 tenant actors whose names are drawn from an adversarial pool (prefixes of one
//! another, adjacent in byte order, containing the key separator ':' / ':n:' / ':e:', the
//! empty string, non-ASCII) interleave puts and deletes of nodes and relationships with
//! deliberately overlapping ids, directly on `PersistentStorage` and through
//! `PersistenceManager`, with `flush`, reopen and `recover` events.  After every step
//! every tenant's whole view (scan_nodes, scan_edges, get_node, get_edge for all ids, and
//! the tenant listing) is compared with a per-tenant ModelKv.
//!
//! Names also come in pairs that are textual transformations of one another — the
//! separator (or the escape character) written in an escaped form: percent-encoding in
//! upper/lower case, double encoding, backslash, doubling, a leading/trailing escape
//! character — because a key scheme that escapes the separator must be injective.
//! Property updates (`persist_update_node_properties` / `persist_update_edge_properties`)
//! are part of the history, preferably right after another tenant wrote the same id.
//!
//! `TenantManager::create_tenant` and the HTTP `POST /api/tenants` handler validate
//! nothing about the id, so every string is a name "the system accepts".

use crate::kit::core::*;
use crate::kit::model::*;
use crate::kit::pers::*;
use crate::kit::rng::{Rng, Streams};
use samyama::persistence::{PersistenceManager, ResourceQuotas};
use serde_json::{json, Map, Value};
use std::collections::{BTreeMap, BTreeSet};
use std::path::Path;

pub struct C17;

/// Adversarial tenant names.  The first group are pairs/triples where one name is
/// another plus the separator; then names adjacent in byte order to the separator
/// (';' = ':'+1, '9' = ':'-1), key look-alikes, the empty name, non-ASCII.
const NAMES: [&str; 20] = [
    "a", "a:n", "a:", "a:n:", "a:e", "a:b", "a:n:0000000000000001", "a;", "a9", "aa", "b", "", ":", ":n:", "n", "default", "default:n", "ä", "ä:n", "A",
];
const LABELS: [&str; 2] = ["L", "M"];
const TYPES: [&str; 2] = ["T", "U"];
const MAX_ID: u64 = 3;
/// Entity ids are drawn by rank from one of these tables (knob `ids`): keys end in the id as
/// 16 hex digits, so the id domain must include ids whose hex form has letters and large ids.
const ID_TABLES: [[u64; 4]; 4] = [[0, 1, 2, 3], [10, 11, 26, 255], [0xabcdef, 3, 0xff, 12], [u64::MAX - 1, 1, 0x1f, 0x2a]];

#[derive(Clone, Default)]
struct TModel {
    nodes: BTreeMap<u64, CNode>,
    edges: BTreeMap<u64, CEdge>,
}

struct World {
    ids: [u64; 4],
    names: Vec<String>,
    models: Vec<TModel>,
}

fn open(dir: &Path, names: &[String]) -> Result<PersistenceManager, String> {
    let pm = PersistenceManager::new(dir).map_err(|e| format!("open: {e}"))?;
    for n in names {
        // "default" exists already; the registry accepts every other string
        let _ = pm.tenants().create_tenant(n.clone(), format!("tenant {n:?}"), Some(ResourceQuotas::unlimited()));
        if !pm.tenants().is_tenant_enabled(n) {
            return Err(format!("tenant {n:?} was not accepted by create_tenant"));
        }
    }
    Ok(pm)
}

/// Which mechanism let a foreign entity into the reader's scan, from the two tenants'
/// key ranges: the reader scans from the prefix `reader:`; all keys of the owner of that
/// kind begin with `owner:<tag>:`.
fn relation(reader: &str, owner: &str, tag: &str) -> &'static str {
    let rp = format!("{reader}:");
    let ok = format!("{owner}:{tag}:");
    if reader != owner && unescaped(reader) == unescaped(owner) {
        // "a:b" and "a%3Ab": the two names are one string once escape sequences are undone
        "tenant_names_equal_after_unescaping"
    } else if ok.starts_with(&rp) {
        // "a" reading "a:n"'s keys, or "a:n" reading "a"'s node keys `a:n:<id>`: the prefix
        // `tenant:` is not unique to the tenant
        "scan_prefix_shared_with_other_tenant"
    } else if ok.as_bytes() >= rp.as_bytes() {
        // the scan did not stop at the end of the prefix
        "scan_runs_past_prefix"
    } else {
        "other"
    }
}

/// A name with the usual escape notations of the separator / escape character undone, to a
/// fixpoint (only used to CLASSIFY a mix-up that was already observed, never to detect one).
fn unescaped(name: &str) -> String {
    let mut cur = name.to_string();
    for _ in 0..8 {
        let mut next = cur.clone();
        for (from, to) in [("%3A", ":"), ("%3a", ":"), ("%25", "%"), ("\\:", ":"), ("::", ":"), ("%%", "%")] {
            next = next.replace(from, to);
        }
        if next == cur {
            break;
        }
        cur = next;
    }
    cur
}

/// Textual transformations of a tenant name: the separator or the escape character
/// written in an escaped form (rank `how` chooses).
fn escaped_variant(name: &str, how: u64) -> String {
    match how % 10 {
        0 => name.replace(':', "%3A"),
        1 => name.replace(':', "%3a"),
        2 => name.replace('%', "%25"),
        3 => name.replace('%', "%25").replace(':', "%3A"),
        4 => name.replace(':', "%253A"),
        5 => name.replace(':', "\\:"),
        6 => name.replace(':', "::"),
        7 => format!("{name}%"),
        8 => format!("%{name}"),
        _ => name.replace(':', "%3A").replace('%', "%25"),
    }
}

fn worst(classes: &BTreeSet<&'static str>) -> &'static str {
    if classes.contains("tenant_names_equal_after_unescaping") {
        "tenant_names_equal_after_unescaping"
    } else if classes.contains("other") {
        "other"
    } else if classes.contains("scan_runs_past_prefix") {
        "scan_runs_past_prefix"
    } else {
        "scan_prefix_shared_with_other_tenant"
    }
}

fn owner_tag_n(c: &CNode) -> Option<usize> {
    c.props.get("o").and_then(|s| s.strip_prefix("I:")).and_then(|s| s.parse().ok())
}
fn owner_tag_e(c: &CEdge) -> Option<usize> {
    c.props.get("o").and_then(|s| s.strip_prefix("I:")).and_then(|s| s.parse().ok())
}

struct Ctx<'a> {
    w: &'a World,
    step: usize,
    last: String,
    out: Vec<Violation>,
}

impl<'a> Ctx<'a> {
    fn fail(&mut self, sig: String, detail: String) {
        if self.out.iter().any(|v| v.signature == sig) || self.out.len() >= 8 {
            return;
        }
        self.out.push(Violation::new(sig, format!("after {} (step {}), tenants {:?}: {}", self.last, self.step, self.w.names, detail), self.step));
    }

    /// Compare one tenant's node view (from a scan or from recover) with its model.
    fn nodes_view(&mut self, view: &str, ti: usize, got: &BTreeMap<u64, Vec<CNode>>) {
        let reader = &self.w.names[ti];
        let want = &self.w.models[ti].nodes;
        let mut foreign: BTreeSet<&'static str> = BTreeSet::new();
        let mut foreign_detail = String::new();
        for (id, list) in got {
            let mut own_seen = 0;
            for c in list {
                match owner_tag_n(c) {
                    Some(o) if o == ti => {
                        own_seen += 1;
                        if want.get(id) != Some(c) {
                            self.fail(format!("C17/{view}/wrong_or_stale_own_entity"), format!("tenant {reader:?} node {id}: got {:?}, want {:?}", c, want.get(id)));
                        }
                    }
                    Some(o) if o < self.w.names.len() => {
                        foreign.insert(relation(reader, &self.w.names[o], "n"));
                        if foreign_detail.is_empty() {
                            foreign_detail = format!("node {id} of tenant {:?} returned for tenant {reader:?}", self.w.names[o]);
                        }
                    }
                    _ => self.fail(format!("C17/{view}/unattributable_entity"), format!("tenant {reader:?} node {id}: {:?}", c)),
                }
            }
            if own_seen > 1 {
                self.fail(format!("C17/{view}/duplicate_own_entity"), format!("tenant {reader:?} node {id} returned {own_seen} times"));
            }
        }
        if !foreign.is_empty() {
            self.fail(format!("C17/{view}/foreign_entity/{}", worst(&foreign)), foreign_detail);
        }
        for id in want.keys() {
            let has_own = got.get(id).map(|l| l.iter().any(|c| owner_tag_n(c) == Some(ti))).unwrap_or(false);
            if !has_own {
                self.fail(format!("C17/{view}/missing_own_entity"), format!("tenant {reader:?} node {id} is stored but not returned"));
            }
        }
    }

    fn edges_view(&mut self, view: &str, ti: usize, got: &BTreeMap<u64, Vec<CEdge>>) {
        let reader = &self.w.names[ti];
        let want = &self.w.models[ti].edges;
        let mut foreign: BTreeSet<&'static str> = BTreeSet::new();
        let mut foreign_detail = String::new();
        for (id, list) in got {
            let mut own_seen = 0;
            for c in list {
                match owner_tag_e(c) {
                    Some(o) if o == ti => {
                        own_seen += 1;
                        if want.get(id) != Some(c) {
                            self.fail(format!("C17/{view}/wrong_or_stale_own_entity"), format!("tenant {reader:?} edge {id}: got {:?}, want {:?}", c, want.get(id)));
                        }
                    }
                    Some(o) if o < self.w.names.len() => {
                        foreign.insert(relation(reader, &self.w.names[o], "e"));
                        if foreign_detail.is_empty() {
                            foreign_detail = format!("edge {id} of tenant {:?} returned for tenant {reader:?}", self.w.names[o]);
                        }
                    }
                    _ => self.fail(format!("C17/{view}/unattributable_entity"), format!("tenant {reader:?} edge {id}: {:?}", c)),
                }
            }
            if own_seen > 1 {
                self.fail(format!("C17/{view}/duplicate_own_entity"), format!("tenant {reader:?} edge {id} returned {own_seen} times"));
            }
        }
        if !foreign.is_empty() {
            self.fail(format!("C17/{view}/foreign_entity/{}", worst(&foreign)), foreign_detail);
        }
        for id in want.keys() {
            let has_own = got.get(id).map(|l| l.iter().any(|c| owner_tag_e(c) == Some(ti))).unwrap_or(false);
            if !has_own {
                self.fail(format!("C17/{view}/missing_own_entity"), format!("tenant {reader:?} edge {id} is stored but not returned"));
            }
        }
    }
}

fn check_all(c: &mut Ctx, pm: &PersistenceManager) {
    let st = pm.storage();
    for ti in 0..c.w.names.len() {
        let name = c.w.names[ti].clone();
        match st.scan_nodes(&name) {
            Ok(ns) => c.nodes_view("scan_nodes", ti, &index_nodes(&ns)),
            Err(e) => c.fail("C17/scan_nodes/error".into(), format!("tenant {name:?}: {e}")),
        }
        match st.scan_edges(&name) {
            Ok(es) => c.edges_view("scan_edges", ti, &index_edges(&es)),
            Err(e) => c.fail("C17/scan_edges/error".into(), format!("tenant {name:?}: {e}")),
        }
        for id in c.w.ids {
            match st.get_node(&name, id) {
                Ok(g) => {
                    let g = g.map(|n| canon_node(&n));
                    let w = c.w.models[ti].nodes.get(&id).cloned();
                    if g != w {
                        let class = match &g {
                            Some(x) if owner_tag_n(x).map(|o| o != ti).unwrap_or(false) => "foreign_entity",
                            None => "missing_own_entity",
                            _ => "wrong_or_stale_own_entity",
                        };
                        c.fail(format!("C17/get_node/{class}"), format!("tenant {name:?} node {id}: got {:?}, want {:?}", g, w));
                    }
                }
                Err(e) => c.fail("C17/get_node/error".into(), format!("tenant {name:?} node {id}: {e}")),
            }
            match st.get_edge(&name, id) {
                Ok(g) => {
                    let g = g.map(|n| canon_edge(&n));
                    let w = c.w.models[ti].edges.get(&id).cloned();
                    if g != w {
                        let class = match &g {
                            Some(x) if owner_tag_e(x).map(|o| o != ti).unwrap_or(false) => "foreign_entity",
                            None => "missing_own_entity",
                            _ => "wrong_or_stale_own_entity",
                        };
                        c.fail(format!("C17/get_edge/{class}"), format!("tenant {name:?} edge {id}: got {:?}, want {:?}", g, w));
                    }
                }
                Err(e) => c.fail("C17/get_edge/error".into(), format!("tenant {name:?} edge {id}: {e}")),
            }
        }
    }
    // ---- tenant listing: every listed name must be a tenant that holds data
    match pm.list_persisted_tenants() {
        Ok(list) => {
            let holders: BTreeSet<&str> = c.w.names.iter().enumerate().filter(|(i, _)| !c.w.models[*i].nodes.is_empty() || !c.w.models[*i].edges.is_empty()).map(|(_, n)| n.as_str()).collect();
            let mut seen = BTreeSet::new();
            for l in &list {
                if !seen.insert(l.clone()) {
                    c.fail("C17/list_persisted_tenants/duplicate".into(), format!("{l:?} listed twice in {:?}", list));
                }
                if !holders.contains(l.as_str()) {
                    // which holder's data produced this name?
                    let from_sep = holders.iter().any(|h| h.contains(':') && h.split(':').next() == Some(l.as_str()));
                    let class = if from_sep { "name_cut_at_separator" } else { "other" };
                    c.fail(
                        format!("C17/list_persisted_tenants/phantom_tenant/{class}"),
                        format!("listing {:?} contains {l:?}, which holds no data (holders: {:?}): its data would be recovered under the wrong tenant", list, holders),
                    );
                }
            }
        }
        Err(e) => c.fail("C17/list_persisted_tenants/error".into(), e.to_string()),
    }
}

fn gen_names(r: &mut Rng) -> Vec<String> {
    let n = if r.chance(2, 5) { 3 } else { 2 };
    let mut out: Vec<String> = Vec::new();
    if r.chance(1, 2) {
        // a pair where one name is the other plus ':' and more
        let bases: Vec<usize> = (0..NAMES.len()).filter(|i| NAMES.iter().any(|x| x.starts_with(&format!("{}:", NAMES[*i])))).collect();
        let b = NAMES[*r.pick(&bases)];
        let exts: Vec<&str> = NAMES.iter().cloned().filter(|x| x.starts_with(&format!("{b}:"))).collect();
        out.push(b.to_string());
        out.push(r.pick(&exts).to_string());
    }
    if out.is_empty() && r.chance(1, 2) {
        // a pair (sometimes a chain of three) where one name is an escaped spelling of the other
        let with_sep: Vec<&str> = NAMES.iter().cloned().filter(|x| x.contains(':')).collect();
        let b = r.pick(&with_sep).to_string();
        let v = escaped_variant(&b, r.below(10));
        out.push(b);
        if !out.contains(&v) {
            out.push(v.clone());
        }
        if n >= 3 && r.chance(1, 2) {
            // escape again (double encoding) or a second spelling of the same base
            let w = if r.chance(1, 2) { escaped_variant(&v, r.below(10)) } else { escaped_variant(&out[0], r.below(10)) };
            if !out.contains(&w) {
                out.push(w);
            }
        }
    }
    let mut guard = 0;
    while out.len() < n && guard < 100 {
        guard += 1;
        let c = NAMES[r.usize_below(NAMES.len())].to_string();
        if !out.contains(&c) {
            out.push(c);
        }
    }
    // order of actors is part of the case: shuffle
    for i in (1..out.len()).rev() {
        let j = r.usize_below(i + 1);
        out.swap(i, j);
    }
    out
}

fn small_props(r: &mut Rng) -> Map<String, Value> {
    let mut m = Map::new();
    if r.chance(1, 2) {
        m.insert("k".into(), gen_small_value(r));
    }
    m
}

fn upd_props(r: &mut Rng) -> Map<String, Value> {
    let mut m = Map::new();
    m.insert(if r.chance(1, 2) { "k".to_string() } else { "u".to_string() }, gen_small_value(r));
    if r.chance(1, 4) {
        m.insert("w".into(), gen_small_value(r));
    }
    m
}

impl Scenario for C17 {
    fn id(&self) -> &'static str {
        "C17"
    }
    fn runs(&self, tier: Tier) -> u64 {
        match tier {
            Tier::Quick => 600,
            Tier::Thorough => 40000,
        }
    }
    fn rule(&self) -> &'static str {
        "case = 2..3 distinct tenant names from a pool of 20 adversarial names (half of the runs contain a pair where one name is the other plus ':…'), and a history of 2..24 events: put/delete of nodes and relationships (ids 0..3 shared by all tenants, content tagged with its owner) directly on PersistentStorage or through PersistenceManager::persist_*, recover(tenant), flush, reopen. After every event every tenant's scan_nodes, scan_edges, get_node/get_edge for every id and list_persisted_tenants are compared with the per-tenant model. Names: in a quarter of the runs the names contain a pair (or chain of three) where one is an escaped spelling of the other (':' as %3A / %3a / %253A / \\: / '::', '%' as %25, a leading/trailing '%'). Events also include persist_update_node_properties / persist_update_edge_properties (half of them aimed at the id the previous put/update touched, as another tenant); the model merges the properties when the tenant holds the entity and does nothing otherwise. Non-trivial = at least two tenants held data at the same time and a maintenance event (flush or reopen) happened. Distinct = hash of (names, sequence of (op kind, tenant index, id, route))."
    }
    fn real_components(&self) -> Vec<&'static str> {
        vec![
            "samyama::persistence::PersistentStorage (put/get/delete/scan_nodes/scan_edges/list_persisted_tenants) over real RocksDB on tmpfs",
            "samyama::persistence::PersistenceManager (persist_create_*, persist_delete_*, persist_update_node_properties, persist_update_edge_properties, recover, list_persisted_tenants, flush)",
            "samyama::persistence::TenantManager::create_tenant (accepts every name)",
        ]
    }
    fn assumptions(&self) -> Vec<&'static str> {
        vec![
            "every string is a tenant name the system accepts: TenantManager::create_tenant and POST /api/tenants validate nothing (the scenario checks that create_tenant accepted each name it uses)",
            "tenant listing: only 'a listed name must be a tenant that holds data' is demanded (a name produced by cutting another tenant's name at ':' makes start-up recover that data under the wrong tenant); completeness of the listing (a tenant holding only relationships is not listed: the listing reads the nodes column family only) is NOT demanded by the statement and is only counted as a probe",
            "a put on an existing id overwrites (RocksDB put); the model does the same",
            "persist_update_*_properties sets the given properties on the stored entity of THAT tenant and stores nothing when that tenant holds no such entity (read from the code: `if let Some(node) = storage.get_node(tenant, id)`); labels, endpoints and the other properties are unchanged",
        ]
    }
    fn required_probes(&self, _tier: Tier) -> Vec<&'static str> {
        vec![
            "name_extends_another",
            "three_tenants",
            "same_id_in_two_tenants",
            "reopen_with_data",
            "flush_with_data",
            "recover_with_two_holders",
            "empty_tenant_name",
            "via_manager",
            "via_storage",
            "name_is_escaped_spelling_of_another",
            "update_node_properties",
            "update_edge_properties",
            "update_right_after_another_tenant_wrote_same_id",
            "update_of_id_only_another_tenant_holds",
        ]
    }
    fn generate(&self, s: &mut Streams, _run_index: u64, _tier: Tier) -> Case {
        let mut case = Case::new("C17");
        let names = gen_names(&mut s.knobs);
        let nt = names.len() as u64;
        case.knobs.insert("tenants".into(), json!(names));
        case.knobs.insert("ids".into(), json!(s.knobs.below(4)));
        let n = s.knobs.short_len(2, 24);
        let r = &mut s.workload;
        for _ in 0..n {
            let w: [u32; 9] = [10, 7, 3, 3, 3, 2, 2, 5, 3];
            let ev = match r.weighted(&w) {
                // property updates through the manager; `adj` = 1: act on the id the previous
                // event touched, as the NEXT tenant (cross-tenant adjacency on one id)
                7 => json!({"op":"upd_node","t":r.below(nt),"id":r.below(MAX_ID + 1),"props":upd_props(r),"adj":r.below(2)}),
                8 => json!({"op":"upd_edge","t":r.below(nt),"id":r.below(MAX_ID + 1),"props":upd_props(r),"ver":r.below(3),"adj":r.below(2)}),
                0 => json!({"op":"put_node","t":r.below(nt),"id":r.below(MAX_ID + 1),"label":r.below(2),"props":small_props(r),"via":r.below(2)}),
                1 => json!({"op":"put_edge","t":r.below(nt),"id":r.below(MAX_ID + 1),"s":r.below(4),"d":r.below(4),"type":r.below(2),"props":small_props(r),"via":r.below(2)}),
                2 => json!({"op":"del_node","t":r.below(nt),"id":r.below(MAX_ID + 1),"via":r.below(2)}),
                3 => json!({"op":"del_edge","t":r.below(nt),"id":r.below(MAX_ID + 1),"via":r.below(2)}),
                4 => json!({"op":"recover","t":r.below(nt)}),
                5 => json!({"op":"flush"}),
                _ => json!({"op":"reopen"}),
            };
            case.events.push(ev);
        }
        case
    }
    fn shrink_event(&self, ev: &Value) -> Vec<Value> {
        let mut out = Vec::new();
        match op(ev) {
            "put_node" | "put_edge" => {
                let mut e = ev.clone();
                e["props"] = json!({});
                e["via"] = json!(0);
                out.push(e);
            }
            "del_node" | "del_edge" => {
                let mut e = ev.clone();
                e["via"] = json!(0);
                out.push(e);
            }
            "upd_node" | "upd_edge" => {
                if u(ev, "adj") != 0 {
                    let mut e = ev.clone();
                    e["adj"] = json!(0);
                    out.push(e);
                }
            }
            "reopen" => out.push(json!({"op":"flush"})),
            _ => {}
        }
        out
    }
    fn execute(&self, case: &Case) -> Outcome {
        let mut o = Outcome::new();
        let mut names: Vec<String> = case.knobs.get("tenants").and_then(|v| v.as_array()).map(|a| a.iter().filter_map(|x| x.as_str().map(|s| s.to_string())).collect()).unwrap_or_default();
        let mut uniq = BTreeSet::new();
        names.retain(|n| uniq.insert(n.clone()));
        if names.len() < 2 {
            names = vec!["a".into(), "b".into()];
        }
        let rd = RunDir::new("c17", case.run_index);
        let dir = rd.sub("db");
        let mut pm = match open(&dir, &names) {
            Ok(p) => Some(p),
            Err(e) => {
                o.violate(Violation::new("C17/open/error", e, 0));
                return o;
            }
        };
        let mut w = World { ids: ID_TABLES[(case.knob_u64("ids", 0) % 4) as usize], models: vec![TModel::default(); names.len()], names };
        if w.names.iter().any(|a| w.names.iter().any(|b| b.starts_with(&format!("{a}:")))) {
            o.probe("name_extends_another");
        }
        if w.names.len() >= 3 {
            o.probe("three_tenants");
        }
        if w.names.iter().any(|n| n.is_empty()) {
            o.probe("empty_tenant_name");
        }
        let nt = w.names.len() as u64;
        let mut sig_parts: Vec<String> = vec![format!("{:?}", w.names)];
        let mut two_holders_seen = false;
        let mut maint_with_two = false;
        if w.names.iter().any(|a| w.names.iter().any(|b| a != b && unescaped(a) == unescaped(b))) {
            o.probe("name_is_escaped_spelling_of_another");
        }
        // (tenant index, id, entity tag) of the previous put/update through the manager or storage
        let mut prev_touch: Option<(usize, u64, char)> = None;
        for (step, ev) in case.events.iter().enumerate() {
            let kind = op(ev).to_string();
            let mut ti = (u(ev, "t") % nt) as usize;
            let mut id = w.ids[(u(ev, "id") % (MAX_ID + 1)) as usize];
            if matches!(kind.as_str(), "upd_node" | "upd_edge") && u(ev, "adj") % 2 == 1 {
                if let Some((pt, pid, _)) = prev_touch {
                    ti = (pt + 1 + (u(ev, "t") % (nt - 1).max(1)) as usize) % nt as usize;
                    id = pid;
                }
            }
            let via = u(ev, "via") % 2;
            let tname = w.names[ti].clone();
            let holders = w.models.iter().filter(|m| !m.nodes.is_empty() || !m.edges.is_empty()).count();
            let p = pm.as_ref().unwrap();
            let mut err: Option<String> = None;
            match kind.as_str() {
                "put_node" => {
                    let mut props = ev["props"].as_object().cloned().unwrap_or_default();
                    props.insert("o".into(), json!({"i": ti}));
                    let (pmap, bm) = props_from(&Value::Object(props));
                    let labels = vec![LABELS[(u(ev, "label") % 2) as usize].to_string()];
                    let node = mk_node(id, &labels, pmap);
                    let r = if via == 1 { p.persist_create_node(&tname, &node).map_err(|e| e.to_string()) } else { p.storage().put_node(&tname, &node).map_err(|e| e.to_string()) };
                    err = r.err();
                    if w.models.iter().enumerate().any(|(j, m)| j != ti && m.nodes.contains_key(&id)) {
                        o.probe("same_id_in_two_tenants");
                    }
                    w.models[ti].nodes.insert(id, CNode { labels: labels.into_iter().collect(), props: bm });
                }
                "put_edge" => {
                    let mut props = ev["props"].as_object().cloned().unwrap_or_default();
                    props.insert("o".into(), json!({"i": ti}));
                    let (pmap, bm) = props_from(&Value::Object(props));
                    let ty = TYPES[(u(ev, "type") % 2) as usize];
                    let edge = mk_edge(id, u(ev, "s"), u(ev, "d"), ty, pmap);
                    let r = if via == 1 { p.persist_create_edge(&tname, &edge).map_err(|e| e.to_string()) } else { p.storage().put_edge(&tname, &edge).map_err(|e| e.to_string()) };
                    err = r.err();
                    w.models[ti].edges.insert(id, CEdge { src: u(ev, "s"), dst: u(ev, "d"), ty: ty.to_string(), props: bm });
                }
                "upd_node" | "upd_edge" => {
                    let is_node = kind == "upd_node";
                    let (pmap, bm) = props_from(&ev["props"]);
                    let r = if is_node { p.persist_update_node_properties(&tname, id, &pmap).map_err(|e| e.to_string()) } else { p.persist_update_edge_properties(&tname, id, &pmap, u(ev, "ver")).map_err(|e| e.to_string()) };
                    err = r.err();
                    o.probe(if is_node { "update_node_properties" } else { "update_edge_properties" });
                    // an update of an entity the tenant does not hold stores nothing
                    let hit = if is_node {
                        w.models[ti].nodes.get_mut(&id).map(|n| n.props.extend(bm.clone())).is_some()
                    } else {
                        w.models[ti].edges.get_mut(&id).map(|e| e.props.extend(bm.clone())).is_some()
                    };
                    if !hit {
                        o.probe("update_of_entity_the_tenant_does_not_hold");
                        if w.models.iter().enumerate().any(|(j, m)| j != ti && if is_node { m.nodes.contains_key(&id) } else { m.edges.contains_key(&id) }) {
                            o.probe("update_of_id_only_another_tenant_holds");
                        }
                    }
                    if let Some((pt, pid, tag)) = prev_touch {
                        if hit && pt != ti && pid == id && tag == (if is_node { 'n' } else { 'e' }) {
                            o.probe("update_right_after_another_tenant_wrote_same_id");
                        }
                    }
                }
                "del_node" => {
                    let r = if via == 1 { p.persist_delete_node(&tname, id).map_err(|e| e.to_string()) } else { p.storage().delete_node(&tname, id).map_err(|e| e.to_string()) };
                    err = r.err();
                    w.models[ti].nodes.remove(&id);
                }
                "del_edge" => {
                    let r = if via == 1 { p.persist_delete_edge(&tname, id).map_err(|e| e.to_string()) } else { p.storage().delete_edge(&tname, id).map_err(|e| e.to_string()) };
                    err = r.err();
                    w.models[ti].edges.remove(&id);
                }
                "recover" => {
                    if holders >= 2 {
                        o.probe("recover_with_two_holders");
                    }
                    match p.recover(&tname) {
                        Ok((ns, es)) => {
                            let mut c = Ctx { w: &w, step, last: format!("recover({tname:?})"), out: Vec::new() };
                            c.nodes_view("recover_nodes", ti, &index_nodes(&ns));
                            c.edges_view("recover_edges", ti, &index_edges(&es));
                            for v in c.out {
                                o.violate(v);
                            }
                        }
                        Err(e) => err = Some(e.to_string()),
                    }
                }
                "flush" => {
                    if holders >= 1 {
                        o.probe("flush_with_data");
                    }
                    if holders >= 2 {
                        maint_with_two = true;
                    }
                    err = p.flush().map_err(|e| e.to_string()).err();
                }
                "reopen" => {
                    if holders >= 1 {
                        o.probe("reopen_with_data");
                    }
                    if holders >= 2 {
                        maint_with_two = true;
                    }
                    pm = None; // releases RocksDB's LOCK
                    match open(&dir, &w.names) {
                        Ok(p2) => pm = Some(p2),
                        Err(e) => {
                            o.violate(Violation::new("C17/reopen/error", e, step));
                            break;
                        }
                    }
                }
                _ => continue,
            }
            match kind.as_str() {
                "put_node" | "upd_node" => prev_touch = Some((ti, id, 'n')),
                "put_edge" | "upd_edge" => prev_touch = Some((ti, id, 'e')),
                "del_node" | "del_edge" => prev_touch = None,
                _ => {}
            }
            if matches!(kind.as_str(), "put_node" | "put_edge" | "del_node" | "del_edge") {
                o.probe(if via == 1 { "via_manager" } else { "via_storage" });
                sig_parts.push(format!("{kind}:{ti}:{id}:{via}"));
            } else if matches!(kind.as_str(), "upd_node" | "upd_edge") {
                sig_parts.push(format!("{kind}:{ti}:{id}"));
            } else {
                sig_parts.push(format!("{kind}:{ti}"));
            }
            o.steps += 1;
            if let Some(e) = err {
                o.violate(Violation::new(format!("C17/{kind}/error"), format!("tenant {tname:?}: {e}"), step));
                break;
            }
            if w.models.iter().filter(|m| !m.nodes.is_empty() || !m.edges.is_empty()).count() >= 2 {
                two_holders_seen = true;
            }
            if w.models.iter().any(|m| m.nodes.is_empty() && !m.edges.is_empty()) {
                o.probe("tenant_with_relationships_only");
            }
            let mut c = Ctx { w: &w, step, last: kind.clone(), out: Vec::new() };
            check_all(&mut c, pm.as_ref().unwrap());
            o.steps += 1;
            let bad = !c.out.is_empty() || !o.violations.is_empty();
            for v in c.out {
                if !o.violations.iter().any(|x| x.signature == v.signature) {
                    o.violate(v);
                }
            }
            if bad {
                break;
            }
        }
        // listing completeness is not demanded; count what it omits
        if let Some(p) = pm.as_ref() {
            if let Ok(list) = p.list_persisted_tenants() {
                for (i, n) in w.names.iter().enumerate() {
                    if !list.contains(n) {
                        if !w.models[i].nodes.is_empty() {
                            o.probe("listing_omits_tenant_holding_nodes");
                        } else if !w.models[i].edges.is_empty() {
                            o.probe("listing_omits_tenant_holding_only_relationships");
                        }
                    }
                }
            }
        }
        o.nontrivial = two_holders_seen && maint_with_two;
        o.class_key = hash_str(&sig_parts.join(","));
        o.state_hash = hash_str(&format!("{:?}|{:?}", w.names, w.models.iter().map(|m| (m.nodes.clone(), m.edges.clone())).collect::<Vec<_>>()));
        drop(pm);
        o
    }
}
