//! C30 — the column store behaves as a map under every update sequence.
//!
//! Thin (S): the "events" are the structure's own representation changes (sparse→dense
//! promotion at 1024·2^k entries, growth, rebase below the dense base, demotion to sparse,
//! typed→Other spill).  Histories are steered around those boundaries; after every step
//! the store is compared with a plain map.

use crate::kit::core::*;
use crate::kit::model::*;
use crate::kit::rng::Streams;
use samyama::graph::ColumnStore;
use samyama::graph::PropertyValue;
use serde_json::{json, Value};
use std::collections::{BTreeMap, BTreeSet};

pub struct C30;

const KEYS: [&str; 3] = ["a", "b", "c"];

fn gen_typed(r: &mut crate::kit::rng::Rng, ty: u64) -> Value {
    match ty % 5 {
        0 => json!({"i": r.range(-3, 1000)}),
        1 => jf([0.0, -0.0, 1.5, f64::NAN, -7.25][r.usize_below(5)]),
        2 => {
            let x = ["", "x", "yy", "ünï"][r.usize_below(4)];
            json!({"s": x})
        }
        3 => json!({"b": r.chance(1, 2)}),
        _ => json!({"a": [{"i": r.range(0, 3)}]}),
    }
}

impl Scenario for C30 {
    fn id(&self) -> &'static str {
        "C30"
    }
    fn runs(&self, tier: Tier) -> u64 {
        match tier {
            Tier::Quick => 3_000,
            Tier::Thorough => 400_000,
        }
    }
    fn rule(&self) -> &'static str {
        "history = optional bulk fills (n rows at a stride, to cross the 1024-entry promotion threshold) followed by <=60 single set/remove/clear_row operations whose rows are drawn around the filled region (below the dense base, inside, just past the end, far away) with values of changing type; after every operation every tracked (row,key) is read back (get_property, get_by_id, get_property_keys) and compared with a BTreeMap. Non-trivial = a representation change was observed (promotion, demotion, write below the base of a dense column, typed->Other spill). Distinct = hash of the op-kind/row-class sequence."
    }
    fn real_components(&self) -> Vec<&'static str> {
        vec!["samyama::graph::storage::ColumnStore / Column / ColumnData (set_property, remove_property, clear_row, get_property, get_by_id, get_property_keys)"]
    }
    fn assumptions(&self) -> Vec<&'static str> {
        vec!["reference map model", "PropertyValue::Null is never written (whether a key 'holds a value' after SET null is not stated by the property)"]
    }
    fn required_probes(&self, _tier: Tier) -> Vec<&'static str> {
        vec!["promoted_to_dense", "demoted_to_sparse", "write_below_dense_base", "spilled_to_other", "dense_growth"]
    }
    fn generate(&self, s: &mut Streams, _run_index: u64, _tier: Tier) -> Case {
        let mut case = Case::new("C30");
        let r = &mut s.workload;
        let big = s.knobs.chance(2, 3);
        let base = [0u64, 1, 5, 100, 5000][s.knobs.usize_below(5)];
        let mut n_filled = 0u64;
        if big {
            let nfills = 1 + s.knobs.below(2);
            for f in 0..nfills {
                let n = [1023u64, 1024, 1025, 2047, 2048, 1100][s.knobs.usize_below(6)];
                let stride = [1u64, 1, 1, 2, 3][s.knobs.usize_below(5)];
                let ty = if s.knobs.chance(3, 4) { 0 } else { s.knobs.below(4) };
                case.events.push(json!({"op":"fill","key":f % 3,"start":base,"n":n,"stride":stride,"ty":ty}));
                n_filled = n_filled.max(n * stride);
            }
        }
        let nops = s.knobs.short_len(2, 60);
        for _ in 0..nops {
            let hi = base + n_filled;
            let row = match r.below(8) {
                0 => base.saturating_sub(1 + r.below(3)),
                1 => base.saturating_sub(r.below(base.min(200) + 1)),
                2 => base + r.below(4),
                3 => hi + r.below(3),
                4 => hi.saturating_sub(1 + r.below(3)),
                5 => hi + 1000 + r.below(1_000_000),
                6 => base + r.below(n_filled.max(8)),
                _ => r.below(16),
            };
            match r.below(10) {
                0..=5 => {
                    let ty = if r.chance(4, 5) { 0 } else { r.below(5) };
                    case.events.push(json!({"op":"set","row":row,"key":r.below(3),"val":gen_typed(r, ty)}));
                }
                6..=7 => case.events.push(json!({"op":"remove","row":row,"key":r.below(3)})),
                8 => case.events.push(json!({"op":"clear_row","row":row})),
                _ => case.events.push(json!({"op":"remove_run","key":r.below(3),"start":base + r.below(8),"n":r.below(1200)})),
            }
        }
        case
    }
    fn execute(&self, case: &Case) -> Outcome {
        let mut o = Outcome::new();
        let mut cs = ColumnStore::new();
        let mut m: BTreeMap<(u64, String), String> = BTreeMap::new();
        let mut rows: BTreeSet<u64> = BTreeSet::new();
        let mut col_type: BTreeMap<String, u64> = BTreeMap::new(); // 0..3 typed, 9 other
        let mut classes: Vec<String> = Vec::new();
        let type_of = |v: &PropertyValue| -> u64 {
            match v {
                PropertyValue::Integer(_) => 0,
                PropertyValue::Float(_) => 1,
                PropertyValue::String(_) => 2,
                PropertyValue::Boolean(_) => 3,
                _ => 9,
            }
        };
        let mut do_set = |cs: &mut ColumnStore, m: &mut BTreeMap<(u64, String), String>, rows: &mut BTreeSet<u64>, col_type: &mut BTreeMap<String, u64>, o: &mut Outcome, row: u64, key: &str, pv: PropertyValue| {
            let was_dense = cs.get_column(key).map(|c| c.is_dense()).unwrap_or(false);
            let col_min = m.keys().filter(|(_, k)| k == key).map(|(r, _)| *r).min();
            let col_max = m.keys().filter(|(_, k)| k == key).map(|(r, _)| *r).max();
            let t = type_of(&pv);
            match col_type.get(key) {
                None => {
                    col_type.insert(key.to_string(), t);
                }
                Some(&ct) if ct != t && ct != 9 => {
                    o.probe("spilled_to_other");
                    col_type.insert(key.to_string(), 9);
                }
                _ => {}
            }
            m.insert((row, key.to_string()), pv_canon(&pv));
            rows.insert(row);
            cs.set_property(row as usize, key, pv);
            let is_dense = cs.get_column(key).map(|c| c.is_dense()).unwrap_or(false);
            if !was_dense && is_dense {
                o.probe("promoted_to_dense");
            }
            if was_dense && !is_dense && col_type.get(key) != Some(&9) {
                o.probe("demoted_to_sparse");
            }
            if was_dense && is_dense {
                if let Some(mn) = col_min {
                    if row < mn {
                        o.probe("write_below_dense_base");
                    }
                }
                if let Some(mx) = col_max {
                    if row > mx {
                        o.probe("dense_growth");
                    }
                }
            }
        };
        'outer: for (step, ev) in case.events.iter().enumerate() {
            let kind = op(ev).to_string();
            let mut touched: Vec<u64> = Vec::new();
            match kind.as_str() {
                "fill" => {
                    let key = KEYS[(u(ev, "key") % 3) as usize];
                    let (start, n, stride, ty) = (u(ev, "start"), u(ev, "n").min(4096), u(ev, "stride").max(1), u(ev, "ty"));
                    for i in 0..n {
                        let row = start + i * stride;
                        let pv = match ty % 4 {
                            0 => PropertyValue::Integer(i as i64),
                            1 => PropertyValue::Float(i as f64 + 0.5),
                            2 => PropertyValue::String(format!("s{i}")),
                            _ => PropertyValue::Boolean(i % 2 == 0),
                        };
                        do_set(&mut cs, &mut m, &mut rows, &mut col_type, &mut o, row, key, pv);
                    }
                    classes.push(format!("fill{n}x{stride}t{ty}"));
                }
                "set" => {
                    let key = KEYS[(u(ev, "key") % 3) as usize];
                    let row = u(ev, "row");
                    let pv = pv_from_json(&ev["val"]);
                    if pv.is_null() {
                        continue;
                    }
                    let t = type_of(&pv);
                    do_set(&mut cs, &mut m, &mut rows, &mut col_type, &mut o, row, key, pv);
                    touched.push(row);
                    classes.push(format!("set{t}"));
                }
                "remove" => {
                    let key = KEYS[(u(ev, "key") % 3) as usize];
                    let row = u(ev, "row");
                    cs.remove_property(row as usize, key);
                    m.remove(&(row, key.to_string()));
                    rows.insert(row);
                    touched.push(row);
                    classes.push("rm".into());
                }
                "remove_run" => {
                    let key = KEYS[(u(ev, "key") % 3) as usize];
                    let (start, n) = (u(ev, "start"), u(ev, "n").min(4096));
                    for row in start..start + n {
                        cs.remove_property(row as usize, key);
                        m.remove(&(row, key.to_string()));
                    }
                    classes.push(format!("rmrun{}", n / 256));
                }
                "clear_row" => {
                    let row = u(ev, "row");
                    cs.clear_row(row as usize);
                    for k in KEYS {
                        m.remove(&(row, k.to_string()));
                    }
                    rows.insert(row);
                    touched.push(row);
                    classes.push("clr".into());
                }
                _ => continue,
            }
            o.steps += 1;
            // full comparison over every row ever touched (+ neighbours of the touched ones)
            let mut check_rows: Vec<u64> = rows.iter().cloned().collect();
            for t in &touched {
                check_rows.push(t + 1);
                check_rows.push(t.saturating_sub(1));
            }
            for row in check_rows {
                let mut want_keys: Vec<String> = Vec::new();
                for k in KEYS {
                    let want = m.get(&(row, k.to_string())).cloned().unwrap_or_else(|| "N".to_string());
                    if want != "N" {
                        want_keys.push(k.to_string());
                    }
                    let got = pv_canon(&cs.get_property(row as usize, k));
                    if got != want {
                        let class = if col_type.get(k) == Some(&9) { "other_column" } else { "typed_column" };
                        o.violate(Violation::new(format!("C30/get_property/{class}"), format!("after {kind} (step {step}): row {row} key {k}: got {got} want {want}"), step));
                        break 'outer;
                    }
                    if let Some(id) = cs.column_id(k) {
                        let got2 = pv_canon(&cs.get_by_id(id, row as usize));
                        if got2 != want {
                            o.violate(Violation::new("C30/get_by_id/mismatch", format!("after {kind} (step {step}): row {row} key {k}: got {got2} want {want}"), step));
                            break 'outer;
                        }
                    }
                }
                let mut got_keys = cs.get_property_keys(row as usize);
                got_keys.sort();
                want_keys.sort();
                if got_keys != want_keys {
                    o.violate(Violation::new("C30/get_property_keys/mismatch", format!("after {kind} (step {step}): row {row}: got {:?} want {:?}", got_keys, want_keys), step));
                    break 'outer;
                }
            }
        }
        let p = |n: &str| o.probes.get(n).cloned().unwrap_or(0) > 0;
        o.nontrivial = p("promoted_to_dense") || p("demoted_to_sparse") || p("write_below_dense_base") || p("spilled_to_other");
        o.class_key = hash_str(&classes.join(","));
        o.state_hash = hash_str(&format!("{:?}", m));
        o
    }
}
