//! Case-generation PRNG (SplitMix64). Nothing here touches the OS: one case seed = one case.

#[derive(Clone)]
pub struct Prng(pub u64);

pub fn mix(mut z: u64) -> u64 {
    z = z.wrapping_add(0x9E37_79B9_7F4A_7C15);
    z = (z ^ (z >> 30)).wrapping_mul(0xBF58_476D_1CE4_E5B9);
    z = (z ^ (z >> 27)).wrapping_mul(0x94D0_49BB_1331_11EB);
    z ^ (z >> 31)
}

impl Prng {
    pub fn new(seed: u64, stream: u64) -> Self {
        Prng(mix(seed ^ mix(stream.wrapping_mul(0xD6E8_FEB8_6659_FD93))))
    }
    pub fn next(&mut self) -> u64 {
        self.0 = self.0.wrapping_add(0x9E37_79B9_7F4A_7C15);
        let mut z = self.0;
        z = (z ^ (z >> 30)).wrapping_mul(0xBF58_476D_1CE4_E5B9);
        z = (z ^ (z >> 27)).wrapping_mul(0x94D0_49BB_1331_11EB);
        z ^ (z >> 31)
    }
    /// uniform in 0..n (n > 0)
    pub fn below(&mut self, n: u64) -> u64 {
        self.next() % n
    }
    /// uniform in lo..=hi
    pub fn range(&mut self, lo: u64, hi: u64) -> u64 {
        lo + self.below(hi - lo + 1)
    }
    /// uniform in [0,1)
    pub fn unit(&mut self) -> f64 {
        (self.next() >> 11) as f64 / (1u64 << 53) as f64
    }
    pub fn chance(&mut self, num: u64, den: u64) -> bool {
        self.below(den) < num
    }
    pub fn pick<'a, T>(&mut self, xs: &'a [T]) -> &'a T {
        &xs[self.below(xs.len() as u64) as usize]
    }
}

/// FNV-1a over bytes, for result fingerprints.
pub fn fnv(h: u64, bytes: &[u8]) -> u64 {
    let mut h = if h == 0 { 0xcbf2_9ce4_8422_2325 } else { h };
    for b in bytes {
        h ^= *b as u64;
        h = h.wrapping_mul(0x0000_0100_0000_01B3);
    }
    h
}
