//! sched-check <C27|C34> <case-seed> <mode>
//!
//! mode:
//!   miri            one small case on a pool of 3 threads, plus a pool of 1 thread where the 1-thread
//!                   answer is the reference (C34 always; C27 only for tolerance-boundary cases).
//!                   Meant to run under Miri, where -Zmiri-seed decides the interleaving of the rayon
//!                   workers (one seed = one replayable schedule). Runs natively too (OS schedules).
//!   miri-all        the same, but always exits 0 (for -Zmiri-many-seeds, which stops at the first
//!                   failing seed); the verdict is the printed line.
//!   native[:COUNT]  COUNT consecutive case seeds starting at <case-seed>; each seed is run as its
//!                   small case (the same case `miri` runs) and as its big case, on real pools of
//!                   1, 3 and 8 threads. One result line per case. C34: each case additionally solves
//!                   c34::NATIVE_EXTRA_CORNER further "corner" problems on the 1-thread pool only.
//!   exhaustive      (C27) every simple directed graph on <= 4 nodes, sequential branch.
//!   describe        print the small and big case for the seed, run nothing.
//!
//! Output: one line per case, `OK ...` or `VIOLATION signature=<sig> detail=<...> | <case>`;
//! exit 0 when every line is OK, 1 when a violation was printed, 2 on usage errors.

mod c27;
mod c34;
mod prng;

pub struct Violation {
    pub signature: String,
    pub detail: String,
}

pub struct Outcome {
    pub violations: Vec<Violation>,
    pub nontrivial: bool,
    pub key: String,
    pub info: String,
    pub desc: String,
}

fn pool(n: usize) -> rayon::ThreadPool {
    rayon::ThreadPoolBuilder::new().num_threads(n).build().expect("harness: cannot build rayon pool")
}

/// One write per line (a line assembled piecewise by println! can be torn when several Miri seeds share a
/// stdout), and lines kept under a pipe's atomic write size.
fn emit(line: String) {
    use std::io::Write;
    let mut line: String = if line.len() > 3900 { line.chars().take(3900).collect() } else { line };
    line.push('\n');
    let out = std::io::stdout();
    let mut out = out.lock();
    let _ = out.write_all(line.as_bytes());
    let _ = out.flush();
}

fn clip(s: &str, n: usize) -> String {
    if s.len() <= n { s.to_string() } else { let mut t: String = s.chars().take(n).collect(); t.push_str("..."); t }
}

fn report(prop: &str, seed: u64, class: &str, o: &Outcome) -> bool {
    if o.violations.is_empty() {
        emit(format!("OK property={prop} case={seed} class={class} nontrivial={} key={} {} | {}", o.nontrivial as u8, o.key, clip(&o.info, 600), clip(&o.desc, 2600)));
        true
    } else {
        for v in &o.violations {
            // the description of the failing problem is part of the detail; the trailing JSON stays short
            let desc = if o.desc.len() <= 700 { o.desc.clone() } else { format!("{{\"case\":{seed},\"class\":\"{class}\",\"key\":\"{}\"}}", o.key) };
            emit(format!(
                "VIOLATION signature={} detail={} | property={prop} case={seed} class={class} nontrivial={} key={} {} | {}",
                v.signature, clip(&v.detail.replace('\n', " "), 2400), o.nontrivial as u8, o.key, clip(&o.info, 500), desc
            ));
        }
        false
    }
}

fn main() {
    let args: Vec<String> = std::env::args().collect();
    if args.len() != 4 {
        eprintln!("usage: sched-check <C27|C34> <case-seed> <miri|miri-all|native[:COUNT]|exhaustive|describe>");
        std::process::exit(2);
    }
    let prop = args[1].as_str();
    let seed: u64 = args[2].parse().unwrap_or_else(|_| { eprintln!("bad case seed"); std::process::exit(2) });
    let mode = args[3].as_str();
    if prop != "C27" && prop != "C34" {
        eprintln!("unknown property {prop}");
        std::process::exit(2);
    }
    // solver panics are caught and reported as violations; keep their messages off stderr
    std::panic::set_hook(Box::new(|_| {}));
    let mut ok = true;
    if mode == "describe" {
        if prop == "C34" {
            for big in [false, true] {
                for f in 0..c34::FLAVOURS.len() { println!("{}", c34::Case::generate(seed, big, f).describe()); }
                for k in 1..=c34::NATIVE_EXTRA_CORNER { println!("{}", c34::Case::generate_sub(seed, big, 3, k).describe()); }
            }
        } else {
            println!("{}", c27::Case::generate(seed, false).describe());
            println!("{}", c27::Case::generate(seed, true).describe());
        }
    } else if mode == "miri" || mode == "miri-all" {
        let p3 = pool(3);
        let o = if prop == "C34" {
            // 1-thread run = the sequential schedule the 3-thread run must reproduce bit for bit
            let p1 = pool(1);
            c34::check(seed, false, &[(1usize, &p1), (3usize, &p3)], 0)
        } else {
            let case = c27::Case::generate(seed, false);
            if case.kind == c27::Kind::PrBoundary {
                // the stopping decision sits on the tolerance: both answers are legitimate against the
                // reference, so what is judged is whether 1 and 3 threads take the same one
                let p1 = pool(1);
                c27::check(&case, &[(1usize, &p1), (3usize, &p3)])
            } else {
                // the sequential reference decides; a 1-thread run would add nothing (and Miri time is dear)
                c27::check(&case, &[(3usize, &p3)])
            }
        };
        ok &= report(prop, seed, "small", &o);
    } else if mode == "native" || mode.starts_with("native:") {
        let count: u64 = mode.strip_prefix("native:").map(|c| c.parse().unwrap_or(1)).unwrap_or(1);
        let p1 = pool(1);
        let p3 = pool(3);
        let p8 = pool(8);
        let pools = [(1usize, &p1), (3usize, &p3), (8usize, &p8)];
        for s in seed..seed + count {
            for big in [false, true] {
                let o = if prop == "C34" { c34::check(s, big, &pools, c34::NATIVE_EXTRA_CORNER) } else { c27::check(&c27::Case::generate(s, big), &pools) };
                ok &= report(prop, s, if big { "big" } else { "small" }, &o);
            }
        }
    } else if mode == "exhaustive" {
        if prop != "C27" {
            eprintln!("exhaustive is a C27 mode");
            std::process::exit(2);
        }
        let p1 = pool(1);
        let (graphs, evals, violations) = c27::exhaustive(4, &p1);
        if violations.is_empty() {
            println!("OK property=C27 case=0 class=exhaustive nontrivial=0 key=exhaustive graphs={graphs} evaluations={evals} | {{\"class\":\"exhaustive\",\"what\":\"every simple directed graph on 1..4 nodes, two id orders; page_rank cap/tolerance with and without redistribution, cdlp; sequential branch\"}}");
        } else {
            for v in &violations {
                println!("VIOLATION signature={} detail={} | property=C27 case=0 class=exhaustive nontrivial=0 key=exhaustive graphs={graphs} evaluations={evals} | {{\"class\":\"exhaustive\"}}", v.signature, v.detail);
            }
            ok = false;
        }
    } else {
        eprintln!("unknown mode {mode}");
        std::process::exit(2);
    }
    // one terminator per execution: lets the driver count executions when several Miri seeds share a stdout
    emit(format!("DONE property={prop} case={seed} mode={mode} ok={}", ok as u8));
    // miri-all: the verdict is the printed line only, so that under -Zmiri-many-seeds one seed's violation
    // (e.g. a known finding) does not make Miri abandon the remaining seeds
    std::process::exit(if ok || mode == "miri-all" { 0 } else { 1 });
}
