//! C27 — page_rank / cdlp against straightforward sequential references written from the LDBC
//! Graphalytics definitions, on a pool of N threads (the schedule under test) and on 1 thread.
//!
//! LDBC Graphalytics (spec v1.0.x, sections 2.3.2 PR and 2.3.4 CDLP):
//!   PR_0(v) = 1/|V|
//!   PR_i(v) = (1-d)/|V| + d * ( sum_{u in N_in(v)} PR_{i-1}(u)/|N_out(u)|  +  sum_{w in D} PR_{i-1}(w)/|V| )
//!             (D = vertices without outgoing edges; the last term only when redistribution is on)
//!   L_0(v) = v
//!   L_i(v) = min( argmax_l ( |{u in N_in(v): L_{i-1}(u)=l}| + |{u in N_out(v): L_{i-1}(u)=l}| ) )
//!             (a neighbour reachable in both directions counts twice; a vertex without neighbours keeps its label)
//! The implementation adds to PR a tolerance: stop after the first iteration whose L1 change is < tolerance.
//! CDLP runs the configured number of rounds; stopping earlier is indistinguishable from that only at a
//! fixed point (L_k == L_{k-1}). A labelling that repeats with period 2 (every bipartite-ish component does)
//! is NOT one: L_k and L_{k+1} differ, so the result depends on the parity of the configured count.

use crate::prng::{fnv, Prng};
use crate::{Outcome, Violation};
use samyama_graph_algorithms::{cdlp, page_rank, CdlpConfig, GraphView, PageRankConfig};
use std::collections::HashMap;
use std::panic::{catch_unwind, AssertUnwindSafe};

pub const REL: f64 = 1e-9;

#[derive(Clone, Copy, Debug, PartialEq)]
pub enum Kind { PrCap, PrTol, PrBoundary, Cdlp }

pub struct Graph {
    pub n: usize,
    pub ids: Vec<u64>,
    pub edges: Vec<(usize, usize)>, // simple directed graph: no self-loops, no parallel edges
    /// id = base + rank * stride; inv[rank] = index (empty: look the id up linearly)
    pub base: u64,
    pub stride: u64,
    pub inv: Vec<u32>,
}

impl Graph {
    pub fn view(&self) -> GraphView {
        let mut outgoing = vec![vec![]; self.n];
        let mut incoming = vec![vec![]; self.n];
        for &(u, v) in &self.edges {
            outgoing[u].push(v);
            incoming[v].push(u);
        }
        // node_to_index is not read by page_rank/cdlp; leaving it empty saves n hash inserts under Miri
        GraphView::from_adjacency_list(self.n, self.ids.clone(), HashMap::new(), outgoing, incoming, None)
    }
    /// index of a node id, None for an id the graph does not have (cheaper under Miri than hashing)
    pub fn index_of(&self, id: u64) -> Option<usize> {
        if self.inv.is_empty() { return self.ids.iter().position(|x| *x == id); }
        if id < self.base || (id - self.base) % self.stride != 0 { return None; }
        let rank = ((id - self.base) / self.stride) as usize;
        self.inv.get(rank).map(|i| *i as usize)
    }
    pub fn out_degrees(&self) -> Vec<usize> {
        let mut d = vec![0; self.n];
        for &(u, _) in &self.edges { d[u] += 1; }
        d
    }
}

pub struct Case {
    pub seed: u64,
    pub big: bool,
    pub kind: Kind,
    pub g: Graph,
    pub damping: f64,
    pub dangling: bool,
    pub iterations: usize,
    pub tolerance: f64,
    pub tol_note: String,
    pub shape: &'static str,
    /// cdlp: the max_iterations values the case is run with (each one a separate call, judged separately)
    pub caps: Vec<usize>,
    /// cdlp on a structured graph: the reference labellings L_0.. of the first `probe` rounds (the round
    /// counts are chosen from them); fewer than probe+1 entries = the last one is a fixed point
    pub probe: usize,
    pub probe_rounds: Vec<Vec<u64>>,
}

fn gen_graph(r: &mut Prng, n: usize, max_out: u64) -> (Graph, &'static str) {
    // ids: a permutation of 0..n, scaled and shifted, so that label order != index order
    let mut perm: Vec<u64> = (0..n as u64).collect();
    let shuffle = r.chance(3, 4);
    if shuffle {
        for i in (1..n).rev() {
            let j = r.below(i as u64 + 1) as usize;
            perm.swap(i, j);
        }
    }
    let base = *r.pick(&[0u64, 1, 1000, 1u64 << 33]);
    let stride = *r.pick(&[1u64, 1, 3]);
    let ids: Vec<u64> = perm.iter().map(|p| base + p * stride).collect();
    let dangling_pct = r.range(5, 40);
    let local = r.chance(1, 2); // local = targets near the source (clusters); else uniform
    let back_pct = r.range(0, 50);
    let mut out: Vec<Vec<usize>> = vec![vec![]; n];
    let mut edges = vec![];
    let insert = |out: &mut Vec<Vec<usize>>, e: (usize, usize)| -> bool {
        if out[e.0].contains(&e.1) { false } else { out[e.0].push(e.1); true }
    };
    if n > 1 {
        for u in 0..n {
            if r.below(100) < dangling_pct { continue; }
            let k = r.range(1, max_out);
            for _ in 0..k {
                let v = if local {
                    let off = r.range(1, 6) as usize;
                    if r.chance(1, 2) { (u + off) % n } else { (u + n - (off % n)) % n }
                } else {
                    r.below(n as u64) as usize
                };
                if v == u { continue; }
                if insert(&mut out, (u, v)) { edges.push((u, v)); }
                if r.below(100) < back_pct && insert(&mut out, (v, u)) { edges.push((v, u)); }
            }
        }
    }
    let mut inv = vec![0u32; n];
    for (i, p) in perm.iter().enumerate() { inv[*p as usize] = i as u32; }
    (Graph { n, ids, edges, base, stride, inv }, if local { "local" } else { "uniform" })
}


/// Structured graphs: disjoint unions of small motifs (single edges, paths, stars, cycles, bicliques, small
/// random / random bipartite components), one big random bipartite graph, or motifs next to a random part.
/// On these the synchronous labelling settles within a few rounds — at a fixed point (cycles of odd length,
/// dense components) or, for everything bipartite-ish (an edge swaps its two labels for ever, a star
/// alternates between "leaves carry the centre's label" and the reverse), in a period-2 oscillation that
/// has NO fixed point, so the labelling the statement asks for depends on the configured round count.
/// The random families of `gen_graph` are one giant component that does neither within the rounds run.
/// Components are laid over a shuffled index order, so a component's nodes sit in different rayon chunks.
fn gen_structured(r: &mut Prng, n: usize, few_rounds: bool) -> (Graph, &'static str) {
    let mut perm: Vec<u64> = (0..n as u64).collect();
    if r.chance(3, 4) {
        for i in (1..n).rev() { let j = r.below(i as u64 + 1) as usize; perm.swap(i, j); }
    }
    let base = *r.pick(&[0u64, 1, 1000, 1u64 << 33]);
    let stride = *r.pick(&[1u64, 1, 3]);
    let ids: Vec<u64> = perm.iter().map(|p| base + p * stride).collect();
    // where the k-th node of the construction lives in index order
    let mut slot: Vec<usize> = (0..n).collect();
    if r.chance(3, 4) {
        for i in (1..n).rev() { let j = r.below(i as u64 + 1) as usize; slot.swap(i, j); }
    }
    let mutual_pct = *r.pick(&[0u64, 0, 20, 50, 100]);
    // Miri-sized cases can afford only a few rounds: three in four of them draw from the families that
    // settle (oscillate or reach their fixed point) within three rounds; the slow ones mostly run natively
    let sub = if few_rounds && r.chance(3, 4) { *r.pick(&[0u64, 1, 2, 4, 8]) } else { r.below(9) };
    let shape: &'static str = ["matching", "paths3", "stars", "paths", "bicliques", "motifs", "bipartite", "motifs+random", "cliques"][sub as usize];
    // undirected construction edges over construction positions 0..n
    let mut und: Vec<(usize, usize)> = vec![];
    let motif_end = match sub { 6 => 0, 7 => n / 2, _ => n };
    let mut pos = 0usize;
    while pos < motif_end {
        let left = motif_end - pos;
        // 0 isolated, 1 edge, 2 path, 3 star, 4 cycle, 5 biclique, 6 random bipartite, 7 random, 8 path of 3, 9 clique
        let kind = match sub {
            0 => if r.chance(1, 20) { 0 } else { 1 },
            1 => 8,
            2 => 3,
            3 => *r.pick(&[2u64, 2, 1]),
            4 => 5,
            8 => *r.pick(&[9u64, 9, 9, 0]),
            _ => r.below(10),
        };
        let mut local: Vec<(usize, usize)> = vec![];
        let size = match kind {
            0 => 1,
            1 => { local.push((0, 1)); 2 }
            2 | 8 => { let l = if kind == 8 { 3 } else { r.range(3, 6) as usize }; for i in 0..l - 1 { local.push((i, i + 1)); } l }
            3 => { let k = r.range(2, 6) as usize; for i in 1..=k { local.push((0, i)); } k + 1 }
            4 => { let l = r.range(3, 6) as usize; for i in 0..l { local.push((i, (i + 1) % l)); } l }
            5 => { let (a, b) = (r.range(1, 3) as usize, r.range(1, 3) as usize); for i in 0..a { for j in 0..b { local.push((i, a + j)); } } a + b }
            6 => { let (a, b) = (r.range(2, 5) as usize, r.range(2, 5) as usize); for i in 0..a { for j in 0..b { if r.chance(1, 2) { local.push((i, a + j)); } } } a + b }
            9 => { let l = r.range(3, 5) as usize; for i in 0..l { for j in i + 1..l { local.push((i, j)); } } l }
            _ => { let l = r.range(3, 7) as usize; for i in 0..l { for j in i + 1..l { if r.chance(1, 2) { local.push((i, j)); } } } l }
        };
        if size > left {
            // what is left becomes single edges and an isolated node (cliques: isolated nodes, so that the
            // family keeps its fixed point)
            if sub != 8 { for i in (0..left - 1).step_by(2) { und.push((pos + i, pos + i + 1)); } }
            pos = motif_end;
        } else {
            for (a, b) in local { und.push((pos + a, pos + b)); }
            pos += size;
        }
    }
    let mut out: Vec<Vec<usize>> = vec![vec![]; n];
    let mut edges = vec![];
    let mut insert = |out: &mut Vec<Vec<usize>>, e: (usize, usize)| {
        if e.0 != e.1 && !out[e.0].contains(&e.1) { out[e.0].push(e.1); edges.push(e); }
    };
    if sub == 6 && n > 1 {
        // one random bipartite graph over all nodes: side A = the first `a` construction positions
        let a = (n as u64 * r.range(20, 80) / 100).clamp(1, n as u64 - 1) as usize;
        let max_k = r.range(1, 3);
        for u in 0..a {
            if r.chance(1, 10) { continue; }
            for _ in 0..r.range(1, max_k) { und.push((u, a + r.below((n - a) as u64) as usize)); }
        }
    }
    if sub == 7 {
        // the other half: random clustered edges, as in gen_graph's "local" shape
        let m = n - motif_end;
        for u in 0..m {
            if m < 2 || r.chance(1, 4) { continue; }
            for _ in 0..r.range(1, 2) { let off = r.range(1, 6) as usize % m; und.push((motif_end + u, motif_end + (u + off) % m)); }
        }
    }
    for (a, b) in und {
        let (u, v) = (slot[a], slot[b]);
        if r.below(100) < mutual_pct { insert(&mut out, (u, v)); insert(&mut out, (v, u)); }
        else if r.chance(1, 2) { insert(&mut out, (u, v)); } else { insert(&mut out, (v, u)); }
    }
    let mut inv = vec![0u32; n];
    for (i, p) in perm.iter().enumerate() { inv[*p as usize] = i as u32; }
    (Graph { n, ids, edges, base, stride, inv }, shape)
}

impl Case {
    pub fn generate(seed: u64, big: bool) -> Case {
        let kind = match seed % 6 { 0 => Kind::PrCap, 2 => Kind::PrTol, 4 => Kind::PrBoundary, _ => Kind::Cdlp };
        // every third cdlp case runs on a structured graph (see gen_structured) and with several round counts
        let structured = seed % 6 == 5;
        let mut r = Prng::new(seed, if big { 0xC27B } else { 0xC27A });
        let n = if big {
            match r.below(8) {
                0 => r.range(1, 40) as usize,
                1 => 999,
                2 => 1000,
                3 => 1001,
                4 => r.range(1000, 1100) as usize,
                5 => r.range(900, 999) as usize,
                6 => r.range(1100, 3000) as usize,
                _ => r.range(40, 400) as usize,
            }
        } else {
            1000 + r.below(4) as usize // at the threshold: the smallest graphs that take the parallel branch
        };
        let max_out = if big { 5 } else { 1 + r.below(2) };
        let (g, shape) = if structured { gen_structured(&mut r, n, !big) } else { gen_graph(&mut r, n, max_out) };
        let damping = match r.below(5) { 0 => 0.85, 1 => 0.5, 2 => 0.99, 3 => 0.85, _ => 0.05 + 0.9 * r.unit() };
        let dangling = r.chance(1, 2);
        let iterations = if kind == Kind::Cdlp {
            if big { r.range(1, 12) } else { 2 }
        } else if big { r.range(2, 30) } else { r.range(2, 4) } as usize;
        let iterations = iterations as usize;
        // cdlp round counts. A labelling that oscillates has no fixed point, so what the statement asks for
        // depends on the parity of the configured count: consecutive counts (both parities) are run. On the
        // structured graphs they are placed ON the round at which the sequential labelling settles (first
        // repeats, with period 1 or 2) — the way the page_rank boundary kind places the tolerance on an
        // iteration's change: that is where a stopping rule decides. Natively also a random pair and a long
        // run around the crate's default of 100.
        let (mut probe, mut probe_rounds) = (0usize, vec![]);
        let caps: Vec<usize> = if kind != Kind::Cdlp { vec![] }
            else if !structured { if big { vec![iterations, iterations + 1] } else { vec![iterations] } }
            else {
                probe = if big { 40 } else { 4 };
                probe_rounds = cdlp_reference_rounds(&g, probe);
                let settle = if probe_rounds.len() - 1 < probe { Some(probe_rounds.len() - 1) } else { (2..probe_rounds.len()).find(|&k| probe_rounds[k] == probe_rounds[k - 2]) };
                if big {
                    let s = settle.unwrap_or(20).max(1);
                    let mut c = vec![s, s + 1, iterations, iterations + 1, *r.pick(&[30usize, 51, 99, 100, 101])];
                    c.sort(); c.dedup(); c
                } else {
                    // Miri-sized: at most 3 + 4 rounds
                    let s = settle.unwrap_or(3).clamp(2, 3);
                    vec![s, s + 1]
                }
            };
        let mut c = Case { seed, big, kind, g, damping, dangling, iterations, tolerance: 0.0, tol_note: "0 (iteration cap only)".into(), shape, caps, probe, probe_rounds };
        if kind == Kind::PrTol || kind == Kind::PrBoundary {
            // choose the tolerance from the sequential reference's own L1 changes
            let (_, diffs) = pr_reference(&c.g, c.damping, c.dangling, c.iterations);
            let k = r.range(1, (c.iterations as u64 - 1).max(1)) as usize; // 1-based iteration whose change we sit on
            let dk = diffs[k - 1];
            if kind == Kind::PrTol {
                c.tolerance = dk * 1.01;
                c.tol_note = format!("1.01 x L1 change of iteration {k} (clear exit)");
            } else {
                let ulps = r.range(0, 4) as i64 - 2;
                c.tolerance = f64::from_bits((dk.to_bits() as i64 + ulps) as u64);
                c.tol_note = format!("L1 change of iteration {k} as summed in index order, {ulps:+} ulp (boundary)");
            }
        }
        c
    }

    pub fn describe(&self) -> String {
        let dang = self.g.out_degrees().iter().filter(|d| **d == 0).count();
        format!(
            "{{\"case\":{},\"class\":\"{}\",\"algorithm\":\"{}\",\"kind\":\"{:?}\",\"n\":{},\"edges\":{},\"dangling_nodes\":{},\"shape\":\"{}\",\"id0\":{},\"damping\":{:?},\"dangling_redistribution\":{},\"iterations\":{},\"max_iterations\":{:?},\"tolerance\":{:?},\"tolerance_rule\":\"{}\"}}",
            self.seed, if self.big { "big" } else { "small" }, if self.kind == Kind::Cdlp { "cdlp" } else { "page_rank" }, self.kind,
            self.g.n, self.g.edges.len(), dang, self.shape, self.g.ids.first().copied().unwrap_or(0), self.damping, self.dangling, self.iterations, self.caps, self.tolerance, self.tol_note
        )
    }
}

/// Sequential LDBC PageRank over the edge list: every iterate 1..=iters and its L1 change (no early exit).
pub fn pr_reference(g: &Graph, d: f64, dangling: bool, iters: usize) -> (Vec<Vec<f64>>, Vec<f64>) {
    let n = g.n;
    let nf = n as f64;
    let outdeg = g.out_degrees();
    let mut pr = vec![1.0 / nf; n];
    let mut iterates = vec![];
    let mut diffs = vec![];
    for _ in 0..iters {
        let mut dsum = 0.0;
        if dangling {
            for v in 0..n { if outdeg[v] == 0 { dsum += pr[v]; } }
        }
        let mut acc = vec![0.0; n];
        for &(u, v) in &g.edges { acc[v] += pr[u] / outdeg[u] as f64; }
        let mut next = vec![0.0; n];
        let mut diff = 0.0;
        for v in 0..n {
            next[v] = (1.0 - d) / nf + d * (acc[v] + dsum / nf);
            diff += (next[v] - pr[v]).abs();
        }
        pr = next;
        iterates.push(pr.clone());
        diffs.push(diff);
    }
    (iterates, diffs)
}

/// Iterations (1-based) after which the LDBC iteration with this tolerance may legitimately stop:
/// the first iteration whose change is clearly below the tolerance (or the cap), plus every earlier
/// iteration whose change is within rounding (1e-12 relative) of the tolerance.
pub fn acceptable_exits(diffs: &[f64], tol: f64) -> Vec<usize> {
    let mut acc = vec![];
    for (i, &d) in diffs.iter().enumerate() {
        let k = i + 1;
        if d < tol * (1.0 - 1e-12) { acc.push(k); return acc; }
        if d < tol * (1.0 + 1e-12) { acc.push(k); }
    }
    if acc.last() != Some(&diffs.len()) { acc.push(diffs.len()); }
    acc
}

/// Sequential LDBC CDLP: synchronous rounds; per vertex the multiset of neighbour labels (in- and
/// out-neighbours, a mutual neighbour twice) is sorted and the longest run wins, the first (= smallest
/// label) among equally long runs. Returns L_0 ..= L_k, k = `iters`, or less when L_k is a fixed point
/// (further rounds change nothing, so L_j = L_k for every j > k). Nothing else ends the iteration: an
/// oscillating labelling is followed to the last round.
pub fn cdlp_reference_rounds(g: &Graph, iters: usize) -> Vec<Vec<u64>> {
    let n = g.n;
    let mut nbrs: Vec<Vec<usize>> = vec![vec![]; n];
    for &(u, v) in &g.edges { nbrs[u].push(v); nbrs[v].push(u); }
    let mut rounds = vec![g.ids.clone()];
    let mut seen: Vec<u64> = vec![];
    for _ in 0..iters {
        let labels = rounds.last().unwrap();
        let mut next = labels.clone();
        for v in 0..n {
            if nbrs[v].is_empty() { continue; }
            seen.clear();
            seen.extend(nbrs[v].iter().map(|&u| labels[u]));
            seen.sort_unstable();
            let (mut best_label, mut best_count) = (seen[0], 0usize);
            let mut i = 0;
            while i < seen.len() {
                let mut j = i;
                while j < seen.len() && seen[j] == seen[i] { j += 1; }
                if j - i > best_count { best_count = j - i; best_label = seen[i]; }
                i = j;
            }
            next[v] = best_label;
        }
        if next == *labels { break; } // fixed point
        rounds.push(next);
    }
    rounds
}

/// The labelling after `cap` rounds, given the rounds computed for some count >= cap.
fn after(rounds: &[Vec<u64>], cap: usize) -> &Vec<u64> { &rounds[cap.min(rounds.len() - 1)] }

fn rel_close(a: f64, b: f64) -> bool {
    a == b || (a - b).abs() <= REL * a.abs().max(b.abs())
}

fn max_rel(a: &[f64], b: &[f64]) -> f64 {
    a.iter().zip(b).map(|(x, y)| if x == y { 0.0 } else { (x - y).abs() / x.abs().max(y.abs()) }).fold(0.0, f64::max)
}

fn panic_msg(e: Box<dyn std::any::Any + Send>) -> String {
    if let Some(s) = e.downcast_ref::<String>() { s.clone() } else if let Some(s) = e.downcast_ref::<&str>() { s.to_string() } else { "panic".into() }
}

pub fn check(case: &Case, pools: &[(usize, &rayon::ThreadPool)]) -> Outcome {
    let mut violations: Vec<Violation> = vec![];
    let mut add = |sig: &str, detail: String| {
        if !violations.iter().any(|v: &Violation| v.signature == sig) {
            violations.push(Violation { signature: sig.to_string(), detail });
        }
    };
    let g = &case.g;
    let view = g.view();
    let parallel_branch = g.n >= 1000;
    let mut info = String::new();
    let mut fp_all = 0u64;

    if case.kind == Kind::Cdlp {
        let max_cap = case.caps.iter().copied().max().unwrap_or(0);
        let probed = !case.probe_rounds.is_empty() && (case.probe >= max_cap || case.probe_rounds.len() - 1 < case.probe);
        let computed;
        let rounds: &Vec<Vec<u64>> = if probed { &case.probe_rounds } else { computed = cdlp_reference_rounds(g, max_cap); &computed };
        let fixed_point = rounds.len() - 1 < max_cap.max(if probed { case.probe } else { 0 });
        // first round from which the labelling repeats with period 2 without being a fixed point
        let osc_from = if fixed_point { None } else { (2..rounds.len()).find(|&k| rounds[k] == rounds[k - 2]) };
        let course = if fixed_point { format!("fixed point after round {}", rounds.len() - 1) }
            else if let Some(k) = osc_from { format!("no fixed point: period-2 oscillation from round {k} on") }
            else { format!("no fixed point within {max_cap} rounds") };
        for &cap in &case.caps {
            let reference = after(&rounds, cap);
            let mut first: Option<Vec<u64>> = None;
            for (threads, pool) in pools {
                let res = catch_unwind(AssertUnwindSafe(|| pool.install(|| cdlp(&view, &CdlpConfig { max_iterations: cap }))));
                let res = match res { Ok(r) => r, Err(e) => { add("cdlp-panic", format!("threads={threads} max_iterations={cap} {}", panic_msg(e))); continue; } };
                let mut got = vec![u64::MAX; g.n];
                let mut missing = res.labels.len() != g.n;
                for (id, l) in &res.labels { match g.index_of(*id) { Some(i) => got[i] = *l, None => missing = true } }
                if missing { add("cdlp-missing-nodes", format!("threads={threads} result has {} entries for {} nodes", res.labels.len(), g.n)); }
                if let Some(i) = (0..g.n).find(|&i| got[i] != reference[i]) {
                    let wrong = (0..g.n).filter(|&i| got[i] != reference[i]).count();
                    let at = format!("threads={threads} n={} shape={} max_iterations={cap} node index {i} (id {}) label {} expected {} ({wrong} nodes differ); sequential synchronous labelling: {course}", g.n, case.shape, g.ids[i], got[i], reference[i]);
                    // the labelling of another round count: the propagation was right, the number of rounds was not
                    // (an oscillating labelling equals many rounds: name the one the implementation reports, else the first)
                    let same: Vec<usize> = (0..rounds.len()).filter(|&j| rounds[j] == got).collect();
                    match same.iter().copied().find(|&j| j == res.iterations).or(same.first().copied()) {
                        Some(j) => add("cdlp-wrong-round-count", format!("result is the synchronous labelling after {j} rounds (reported iterations={}), not after the configured {cap}: {at}", res.iterations)),
                        None => add("cdlp-mismatch", at),
                    }
                }
                match &first {
                    None => first = Some(got.clone()),
                    Some(f) => if *f != got { add("cdlp-schedule-dependent", format!("max_iterations={cap}: labels on {threads} threads differ from labels on {} thread(s)", pools[0].0)); }
                }
                let fp = got.iter().fold(0u64, |h, l| fnv(h, &l.to_le_bytes()));
                fp_all = fnv(fp_all, &fp.to_le_bytes());
                info.push_str(&format!(" c{cap}t{threads}:rounds={},fp={:08x}", res.iterations, fp as u32));
            }
        }
        let communities = { let mut l = after(&rounds, max_cap).clone(); l.sort(); l.dedup(); l.len() };
        info.push_str(&format!(" communities={communities} course={}", if fixed_point { format!("fixed@{}", rounds.len() - 1) } else if let Some(k) = osc_from { format!("osc2@{k}") } else { "open".into() }));
    } else {
        let (iterates, diffs) = pr_reference(g, case.damping, case.dangling, case.iterations);
        let acceptable = acceptable_exits(&diffs, case.tolerance);
        let mut first: Option<(Vec<f64>, Vec<usize>)> = None;
        for (threads, pool) in pools {
            let cfg = PageRankConfig { damping_factor: case.damping, iterations: case.iterations, tolerance: case.tolerance, dangling_redistribution: case.dangling };
            let res = catch_unwind(AssertUnwindSafe(|| pool.install(|| page_rank(&view, cfg))));
            let res = match res { Ok(r) => r, Err(e) => { add("pr-panic", format!("threads={threads} {}", panic_msg(e))); continue; } };
            let mut got = vec![f64::NAN; g.n];
            let mut missing = res.len() != g.n;
            for (id, s) in &res { match g.index_of(*id) { Some(i) => got[i] = *s, None => missing = true } }
            if missing { add("pr-missing-nodes", format!("threads={threads} result has {} entries for {} nodes", res.len(), g.n)); continue; }
            // which iterate(s) of the reference does the result equal (within REL)?
            let matched: Vec<usize> = (1..=case.iterations).filter(|&k| got.iter().zip(&iterates[k - 1]).all(|(a, b)| rel_close(*a, *b))).collect();
            if matched.is_empty() {
                let k = *acceptable.last().unwrap();
                add("pr-mismatch", format!("threads={threads} n={} result equals no iterate of the LDBC iteration; max relative error against iterate {k} is {:e}", g.n, max_rel(&got, &iterates[k - 1])));
            } else if !matched.iter().any(|k| acceptable.contains(k)) {
                add("pr-wrong-iteration-count", format!("threads={threads} n={} result is iterate {:?}, the tolerance {:?} stops the iteration after {:?} (L1 changes {:?})", g.n, matched, case.tolerance, acceptable, diffs));
            }
            if case.dangling {
                let s: f64 = got.iter().sum();
                if !((s - 1.0).abs() <= REL) { add("pr-sum-not-one", format!("threads={threads} scores sum to {s:?} with dangling redistribution on")); }
            }
            match &first {
                None => first = Some((got.clone(), matched.clone())),
                Some((f, m1)) => {
                    if !f.iter().zip(&got).all(|(a, b)| rel_close(*a, *b)) {
                        let both = !m1.is_empty() && !matched.is_empty();
                        if both && m1.iter().all(|k| !matched.contains(k)) {
                            add("pr-exit-schedule-dependent", format!(
                                "n={} tolerance={:?} ({}): 1 thread stops after iteration {:?}, {threads} threads after {:?}; max relative score difference {:e}; sequential L1 changes {:?}",
                                g.n, case.tolerance, case.tol_note, m1, matched, max_rel(f, &got), diffs));
                        } else {
                            add("pr-schedule-dependent", format!("n={} scores on {threads} threads differ from 1 thread by {:e} relative", g.n, max_rel(f, &got)));
                        }
                    }
                }
            }
            let fp = got.iter().fold(0u64, |h, l| fnv(h, &l.to_bits().to_le_bytes()));
            fp_all = fnv(fp_all, &fp.to_le_bytes());
            info.push_str(&format!(" t{threads}:iterate={:?},bits={:08x}", matched, fp as u32));
        }
        // same pool, repeated runs (native pass only: more than one pool given): does the stopping decision
        // also move with the schedule alone, thread count fixed?
        if case.kind == Kind::PrBoundary && pools.len() > 1 {
            let (threads, pool) = pools[pools.len() - 1];
            let mut seen: Vec<Vec<usize>> = vec![];
            for _ in 0..12 {
                let cfg = PageRankConfig { damping_factor: case.damping, iterations: case.iterations, tolerance: case.tolerance, dangling_redistribution: case.dangling };
                let Ok(res) = catch_unwind(AssertUnwindSafe(|| pool.install(|| page_rank(&view, cfg)))) else { continue };
                let mut got = vec![f64::NAN; g.n];
                for (id, s) in &res { if let Some(i) = g.index_of(*id) { got[i] = *s; } }
                let matched: Vec<usize> = (1..=case.iterations).filter(|&k| got.iter().zip(&iterates[k - 1]).all(|(a, b)| rel_close(*a, *b))).collect();
                if !seen.contains(&matched) { seen.push(matched); }
            }
            if seen.len() > 1 && seen.iter().all(|m| !m.is_empty()) {
                add("pr-exit-schedule-dependent", format!(
                    "n={} tolerance={:?} ({}): 12 runs on the same {threads}-thread pool stop after iterations {:?}; sequential L1 changes {:?}",
                    g.n, case.tolerance, case.tol_note, seen, diffs));
                info.push_str(" same_pool_flip=1");
            }
        }
        info.push_str(&format!(" acceptable={:?}", acceptable));
    }
    let alg = if case.kind == Kind::Cdlp { "cdlp" } else { "page_rank" };
    Outcome {
        violations,
        // non-trivial: the graph is at/above the crate's parallel threshold (n >= 1000), so the rayon branch
        // is the code that ran on the multi-thread pool
        nontrivial: parallel_branch && pools.iter().any(|(t, _)| *t > 1),
        key: format!("{}|{}", alg, case.seed),
        info: format!("algorithm={alg} kind={:?} n={} m={}{}", case.kind, g.n, g.edges.len(), info),
        desc: case.describe(),
    }
}

/// Every simple directed graph on 1..=max_n nodes (no self-loops), sequential branch: page_rank with and
/// without redistribution (cap and tolerance) and cdlp, against the references. Returns (graphs, evaluations, violations).
pub fn exhaustive(max_n: usize, pool: &rayon::ThreadPool) -> (u64, u64, Vec<Violation>) {
    let mut violations: Vec<Violation> = vec![];
    let mut graphs = 0u64;
    let mut evals = 0u64;
    for n in 1..=max_n {
        let pairs: Vec<(usize, usize)> = (0..n).flat_map(|u| (0..n).filter(move |v| *v != u).map(move |v| (u, v))).collect();
        // two id assignments: ascending, and descending (label order opposite to index order)
        for mask in 0u64..(1u64 << pairs.len()) {
            let edges: Vec<(usize, usize)> = pairs.iter().enumerate().filter(|(i, _)| mask >> i & 1 == 1).map(|(_, e)| *e).collect();
            for desc in [false, true] {
                let ids: Vec<u64> = (0..n as u64).map(|i| if desc { 10 + (n as u64 - 1 - i) * 2 } else { 1 + i }).collect();
                let g = Graph { n, ids, edges: edges.clone(), base: 0, stride: 1, inv: vec![] };
                graphs += 1;
                for (kind, dangling, iters, tol) in [(Kind::PrCap, true, 3usize, 0.0), (Kind::PrCap, false, 2, 0.0), (Kind::PrTol, true, 12, 1e-3), (Kind::Cdlp, false, 4, 0.0)] {
                    if desc && kind != Kind::Cdlp { continue; }
                    let case = Case { seed: mask, big: true, kind, g: Graph { n, ids: g.ids.clone(), edges: g.edges.clone(), base: 0, stride: 1, inv: vec![] }, damping: 0.85, dangling, iterations: iters, tolerance: tol, tol_note: "fixed".into(), shape: "exhaustive", caps: if kind == Kind::Cdlp { vec![iters, iters + 1] } else { vec![] }, probe: 0, probe_rounds: vec![] };
                    let out = check(&case, &[(1, pool)]);
                    evals += 1;
                    for mut v in out.violations {
                        if !violations.iter().any(|x| x.signature == v.signature) {
                            v.detail = format!("exhaustive n={n} edges={:?} ids={:?}: {}", case.g.edges, case.g.ids, v.detail);
                            violations.push(v);
                        }
                    }
                }
            }
        }
    }
    (graphs, evals, violations)
}
