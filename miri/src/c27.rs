//! C27 — page_rank / cdlp against straightforward sequential references written from the LDBC
//! Graphalytics definitions, on a pool of N threads (the schedule under test) and on 1 thread.
//!
//! LDBC Graphalytics (spec v1.0.x, sections 2.3.2 PR and 2.3.4 CDLP):
//!   PR_0(v) = 1/|V|
//!   PR_i(v) = (1-d)/|V| + d * ( sum_{u in N_in(v)} PR_{i-1}(u)/|N_out(u)|  +  sum_{w in D} PR_{i-1}(w)/|V| )
//!             (D = vertices without outgoing edges; the last term only when redistribution is on)
//!   L_0(v) = v
//!   L_i(v) = min( argmax_l ( |{u in N_in(v): L_{i-1}(u)=l}| + |{u in N_out(v): L_{i-1}(u)=l}| ) )
//!             (a neighbour reachable in both directions counts twice; a vertex without neighbours keeps its label)
//! The implementation adds to PR a tolerance: stop after the first iteration whose L1 change is < tolerance.

use crate::prng::{fnv, Prng};
use crate::{Outcome, Violation};
use samyama_graph_algorithms::{cdlp, page_rank, CdlpConfig, GraphView, PageRankConfig};
use std::collections::HashMap;
use std::panic::{catch_unwind, AssertUnwindSafe};

pub const REL: f64 = 1e-9;

#[derive(Clone, Copy, Debug, PartialEq)]
pub enum Kind { PrCap, PrTol, PrBoundary, Cdlp }

pub struct Graph {
    pub n: usize,
    pub ids: Vec<u64>,
    pub edges: Vec<(usize, usize)>, // simple directed graph: no self-loops, no parallel edges
    /// id = base + rank * stride; inv[rank] = index (empty: look the id up linearly)
    pub base: u64,
    pub stride: u64,
    pub inv: Vec<u32>,
}

impl Graph {
    pub fn view(&self) -> GraphView {
        let mut outgoing = vec![vec![]; self.n];
        let mut incoming = vec![vec![]; self.n];
        for &(u, v) in &self.edges {
            outgoing[u].push(v);
            incoming[v].push(u);
        }
        // node_to_index is not read by page_rank/cdlp; leaving it empty saves n hash inserts under Miri
        GraphView::from_adjacency_list(self.n, self.ids.clone(), HashMap::new(), outgoing, incoming, None)
    }
    /// index of a node id, None for an id the graph does not have (cheaper under Miri than hashing)
    pub fn index_of(&self, id: u64) -> Option<usize> {
        if self.inv.is_empty() { return self.ids.iter().position(|x| *x == id); }
        if id < self.base || (id - self.base) % self.stride != 0 { return None; }
        let rank = ((id - self.base) / self.stride) as usize;
        self.inv.get(rank).map(|i| *i as usize)
    }
    pub fn out_degrees(&self) -> Vec<usize> {
        let mut d = vec![0; self.n];
        for &(u, _) in &self.edges { d[u] += 1; }
        d
    }
}

pub struct Case {
    pub seed: u64,
    pub big: bool,
    pub kind: Kind,
    pub g: Graph,
    pub damping: f64,
    pub dangling: bool,
    pub iterations: usize,
    pub tolerance: f64,
    pub tol_note: String,
    pub shape: &'static str,
}

fn gen_graph(r: &mut Prng, n: usize, max_out: u64) -> (Graph, &'static str) {
    // ids: a permutation of 0..n, scaled and shifted, so that label order != index order
    let mut perm: Vec<u64> = (0..n as u64).collect();
    let shuffle = r.chance(3, 4);
    if shuffle {
        for i in (1..n).rev() {
            let j = r.below(i as u64 + 1) as usize;
            perm.swap(i, j);
        }
    }
    let base = *r.pick(&[0u64, 1, 1000, 1u64 << 33]);
    let stride = *r.pick(&[1u64, 1, 3]);
    let ids: Vec<u64> = perm.iter().map(|p| base + p * stride).collect();
    let dangling_pct = r.range(5, 40);
    let local = r.chance(1, 2); // local = targets near the source (clusters); else uniform
    let back_pct = r.range(0, 50);
    let mut out: Vec<Vec<usize>> = vec![vec![]; n];
    let mut edges = vec![];
    let insert = |out: &mut Vec<Vec<usize>>, e: (usize, usize)| -> bool {
        if out[e.0].contains(&e.1) { false } else { out[e.0].push(e.1); true }
    };
    if n > 1 {
        for u in 0..n {
            if r.below(100) < dangling_pct { continue; }
            let k = r.range(1, max_out);
            for _ in 0..k {
                let v = if local {
                    let off = r.range(1, 6) as usize;
                    if r.chance(1, 2) { (u + off) % n } else { (u + n - (off % n)) % n }
                } else {
                    r.below(n as u64) as usize
                };
                if v == u { continue; }
                if insert(&mut out, (u, v)) { edges.push((u, v)); }
                if r.below(100) < back_pct && insert(&mut out, (v, u)) { edges.push((v, u)); }
            }
        }
    }
    let mut inv = vec![0u32; n];
    for (i, p) in perm.iter().enumerate() { inv[*p as usize] = i as u32; }
    (Graph { n, ids, edges, base, stride, inv }, if local { "local" } else { "uniform" })
}

impl Case {
    pub fn generate(seed: u64, big: bool) -> Case {
        let kind = match seed % 6 { 0 => Kind::PrCap, 2 => Kind::PrTol, 4 => Kind::PrBoundary, _ => Kind::Cdlp };
        let mut r = Prng::new(seed, if big { 0xC27B } else { 0xC27A });
        let n = if big {
            match r.below(8) {
                0 => r.range(1, 40) as usize,
                1 => 999,
                2 => 1000,
                3 => 1001,
                4 => r.range(1000, 1100) as usize,
                5 => r.range(900, 999) as usize,
                6 => r.range(1100, 3000) as usize,
                _ => r.range(40, 400) as usize,
            }
        } else {
            1000 + r.below(4) as usize // at the threshold: the smallest graphs that take the parallel branch
        };
        let max_out = if big { 5 } else { 1 + r.below(2) };
        let (g, shape) = gen_graph(&mut r, n, max_out);
        let damping = match r.below(5) { 0 => 0.85, 1 => 0.5, 2 => 0.99, 3 => 0.85, _ => 0.05 + 0.9 * r.unit() };
        let dangling = r.chance(1, 2);
        let iterations = if kind == Kind::Cdlp {
            if big { r.range(1, 12) } else { 2 }
        } else if big { r.range(2, 30) } else { r.range(2, 4) } as usize;
        let iterations = iterations as usize;
        let mut c = Case { seed, big, kind, g, damping, dangling, iterations, tolerance: 0.0, tol_note: "0 (iteration cap only)".into(), shape };
        if kind == Kind::PrTol || kind == Kind::PrBoundary {
            // choose the tolerance from the sequential reference's own L1 changes
            let (_, diffs) = pr_reference(&c.g, c.damping, c.dangling, c.iterations);
            let k = r.range(1, (c.iterations as u64 - 1).max(1)) as usize; // 1-based iteration whose change we sit on
            let dk = diffs[k - 1];
            if kind == Kind::PrTol {
                c.tolerance = dk * 1.01;
                c.tol_note = format!("1.01 x L1 change of iteration {k} (clear exit)");
            } else {
                let ulps = r.range(0, 4) as i64 - 2;
                c.tolerance = f64::from_bits((dk.to_bits() as i64 + ulps) as u64);
                c.tol_note = format!("L1 change of iteration {k} as summed in index order, {ulps:+} ulp (boundary)");
            }
        }
        c
    }

    pub fn describe(&self) -> String {
        let dang = self.g.out_degrees().iter().filter(|d| **d == 0).count();
        format!(
            "{{\"case\":{},\"class\":\"{}\",\"algorithm\":\"{}\",\"kind\":\"{:?}\",\"n\":{},\"edges\":{},\"dangling_nodes\":{},\"shape\":\"{}\",\"id0\":{},\"damping\":{:?},\"dangling_redistribution\":{},\"iterations\":{},\"tolerance\":{:?},\"tolerance_rule\":\"{}\"}}",
            self.seed, if self.big { "big" } else { "small" }, if self.kind == Kind::Cdlp { "cdlp" } else { "page_rank" }, self.kind,
            self.g.n, self.g.edges.len(), dang, self.shape, self.g.ids.first().copied().unwrap_or(0), self.damping, self.dangling, self.iterations, self.tolerance, self.tol_note
        )
    }
}

/// Sequential LDBC PageRank over the edge list: every iterate 1..=iters and its L1 change (no early exit).
pub fn pr_reference(g: &Graph, d: f64, dangling: bool, iters: usize) -> (Vec<Vec<f64>>, Vec<f64>) {
    let n = g.n;
    let nf = n as f64;
    let outdeg = g.out_degrees();
    let mut pr = vec![1.0 / nf; n];
    let mut iterates = vec![];
    let mut diffs = vec![];
    for _ in 0..iters {
        let mut dsum = 0.0;
        if dangling {
            for v in 0..n { if outdeg[v] == 0 { dsum += pr[v]; } }
        }
        let mut acc = vec![0.0; n];
        for &(u, v) in &g.edges { acc[v] += pr[u] / outdeg[u] as f64; }
        let mut next = vec![0.0; n];
        let mut diff = 0.0;
        for v in 0..n {
            next[v] = (1.0 - d) / nf + d * (acc[v] + dsum / nf);
            diff += (next[v] - pr[v]).abs();
        }
        pr = next;
        iterates.push(pr.clone());
        diffs.push(diff);
    }
    (iterates, diffs)
}

/// Iterations (1-based) after which the LDBC iteration with this tolerance may legitimately stop:
/// the first iteration whose change is clearly below the tolerance (or the cap), plus every earlier
/// iteration whose change is within rounding (1e-12 relative) of the tolerance.
pub fn acceptable_exits(diffs: &[f64], tol: f64) -> Vec<usize> {
    let mut acc = vec![];
    for (i, &d) in diffs.iter().enumerate() {
        let k = i + 1;
        if d < tol * (1.0 - 1e-12) { acc.push(k); return acc; }
        if d < tol * (1.0 + 1e-12) { acc.push(k); }
    }
    if acc.last() != Some(&diffs.len()) { acc.push(diffs.len()); }
    acc
}

/// Sequential LDBC CDLP: synchronous rounds; per vertex the multiset of neighbour labels (in- and
/// out-neighbours, a mutual neighbour twice) is sorted and the longest run wins, the first (= smallest
/// label) among equally long runs.
pub fn cdlp_reference(g: &Graph, iters: usize) -> Vec<u64> {
    let n = g.n;
    let mut nbrs: Vec<Vec<usize>> = vec![vec![]; n];
    for &(u, v) in &g.edges { nbrs[u].push(v); nbrs[v].push(u); }
    let mut labels = g.ids.clone();
    let mut seen: Vec<u64> = vec![];
    for _ in 0..iters {
        let mut next = labels.clone();
        for v in 0..n {
            if nbrs[v].is_empty() { continue; }
            seen.clear();
            seen.extend(nbrs[v].iter().map(|&u| labels[u]));
            seen.sort_unstable();
            let (mut best_label, mut best_count) = (seen[0], 0usize);
            let mut i = 0;
            while i < seen.len() {
                let mut j = i;
                while j < seen.len() && seen[j] == seen[i] { j += 1; }
                if j - i > best_count { best_count = j - i; best_label = seen[i]; }
                i = j;
            }
            next[v] = best_label;
        }
        if next == labels { break; } // fixed point: further rounds change nothing
        labels = next;
    }
    labels
}

fn rel_close(a: f64, b: f64) -> bool {
    a == b || (a - b).abs() <= REL * a.abs().max(b.abs())
}

fn max_rel(a: &[f64], b: &[f64]) -> f64 {
    a.iter().zip(b).map(|(x, y)| if x == y { 0.0 } else { (x - y).abs() / x.abs().max(y.abs()) }).fold(0.0, f64::max)
}

fn panic_msg(e: Box<dyn std::any::Any + Send>) -> String {
    if let Some(s) = e.downcast_ref::<String>() { s.clone() } else if let Some(s) = e.downcast_ref::<&str>() { s.to_string() } else { "panic".into() }
}

pub fn check(case: &Case, pools: &[(usize, &rayon::ThreadPool)]) -> Outcome {
    let mut violations: Vec<Violation> = vec![];
    let mut add = |sig: &str, detail: String| {
        if !violations.iter().any(|v: &Violation| v.signature == sig) {
            violations.push(Violation { signature: sig.to_string(), detail });
        }
    };
    let g = &case.g;
    let view = g.view();
    let parallel_branch = g.n >= 1000;
    let mut info = String::new();
    let mut fp_all = 0u64;

    if case.kind == Kind::Cdlp {
        let reference = cdlp_reference(g, case.iterations);
        let mut first: Option<Vec<u64>> = None;
        for (threads, pool) in pools {
            let res = catch_unwind(AssertUnwindSafe(|| pool.install(|| cdlp(&view, &CdlpConfig { max_iterations: case.iterations }))));
            let res = match res { Ok(r) => r, Err(e) => { add("cdlp-panic", format!("threads={threads} {}", panic_msg(e))); continue; } };
            let mut got = vec![u64::MAX; g.n];
            let mut missing = res.labels.len() != g.n;
            for (id, l) in &res.labels { match g.index_of(*id) { Some(i) => got[i] = *l, None => missing = true } }
            if missing { add("cdlp-missing-nodes", format!("threads={threads} result has {} entries for {} nodes", res.labels.len(), g.n)); }
            if let Some(i) = (0..g.n).find(|&i| got[i] != reference[i]) {
                let wrong = (0..g.n).filter(|&i| got[i] != reference[i]).count();
                add("cdlp-mismatch", format!("threads={threads} n={} node index {i} (id {}) label {} expected {} ({wrong} nodes differ)", g.n, g.ids[i], got[i], reference[i]));
            }
            match &first {
                None => first = Some(got.clone()),
                Some(f) => if *f != got { add("cdlp-schedule-dependent", format!("labels on {threads} threads differ from labels on 1 thread")); }
            }
            let fp = got.iter().fold(0u64, |h, l| fnv(h, &l.to_le_bytes()));
            fp_all = fnv(fp_all, &fp.to_le_bytes());
            info.push_str(&format!(" t{threads}:rounds={},fp={:08x}", res.iterations, fp as u32));
        }
        let communities = { let mut l = reference.clone(); l.sort(); l.dedup(); l.len() };
        info.push_str(&format!(" communities={communities}"));
    } else {
        let (iterates, diffs) = pr_reference(g, case.damping, case.dangling, case.iterations);
        let acceptable = acceptable_exits(&diffs, case.tolerance);
        let mut first: Option<(Vec<f64>, Vec<usize>)> = None;
        for (threads, pool) in pools {
            let cfg = PageRankConfig { damping_factor: case.damping, iterations: case.iterations, tolerance: case.tolerance, dangling_redistribution: case.dangling };
            let res = catch_unwind(AssertUnwindSafe(|| pool.install(|| page_rank(&view, cfg))));
            let res = match res { Ok(r) => r, Err(e) => { add("pr-panic", format!("threads={threads} {}", panic_msg(e))); continue; } };
            let mut got = vec![f64::NAN; g.n];
            let mut missing = res.len() != g.n;
            for (id, s) in &res { match g.index_of(*id) { Some(i) => got[i] = *s, None => missing = true } }
            if missing { add("pr-missing-nodes", format!("threads={threads} result has {} entries for {} nodes", res.len(), g.n)); continue; }
            // which iterate(s) of the reference does the result equal (within REL)?
            let matched: Vec<usize> = (1..=case.iterations).filter(|&k| got.iter().zip(&iterates[k - 1]).all(|(a, b)| rel_close(*a, *b))).collect();
            if matched.is_empty() {
                let k = *acceptable.last().unwrap();
                add("pr-mismatch", format!("threads={threads} n={} result equals no iterate of the LDBC iteration; max relative error against iterate {k} is {:e}", g.n, max_rel(&got, &iterates[k - 1])));
            } else if !matched.iter().any(|k| acceptable.contains(k)) {
                add("pr-wrong-iteration-count", format!("threads={threads} n={} result is iterate {:?}, the tolerance {:?} stops the iteration after {:?} (L1 changes {:?})", g.n, matched, case.tolerance, acceptable, diffs));
            }
            if case.dangling {
                let s: f64 = got.iter().sum();
                if !((s - 1.0).abs() <= REL) { add("pr-sum-not-one", format!("threads={threads} scores sum to {s:?} with dangling redistribution on")); }
            }
            match &first {
                None => first = Some((got.clone(), matched.clone())),
                Some((f, m1)) => {
                    if !f.iter().zip(&got).all(|(a, b)| rel_close(*a, *b)) {
                        let both = !m1.is_empty() && !matched.is_empty();
                        if both && m1.iter().all(|k| !matched.contains(k)) {
                            add("pr-exit-schedule-dependent", format!(
                                "n={} tolerance={:?} ({}): 1 thread stops after iteration {:?}, {threads} threads after {:?}; max relative score difference {:e}; sequential L1 changes {:?}",
                                g.n, case.tolerance, case.tol_note, m1, matched, max_rel(f, &got), diffs));
                        } else {
                            add("pr-schedule-dependent", format!("n={} scores on {threads} threads differ from 1 thread by {:e} relative", g.n, max_rel(f, &got)));
                        }
                    }
                }
            }
            let fp = got.iter().fold(0u64, |h, l| fnv(h, &l.to_bits().to_le_bytes()));
            fp_all = fnv(fp_all, &fp.to_le_bytes());
            info.push_str(&format!(" t{threads}:iterate={:?},bits={:08x}", matched, fp as u32));
        }
        // same pool, repeated runs (native pass only: more than one pool given): does the stopping decision
        // also move with the schedule alone, thread count fixed?
        if case.kind == Kind::PrBoundary && pools.len() > 1 {
            let (threads, pool) = pools[pools.len() - 1];
            let mut seen: Vec<Vec<usize>> = vec![];
            for _ in 0..12 {
                let cfg = PageRankConfig { damping_factor: case.damping, iterations: case.iterations, tolerance: case.tolerance, dangling_redistribution: case.dangling };
                let Ok(res) = catch_unwind(AssertUnwindSafe(|| pool.install(|| page_rank(&view, cfg)))) else { continue };
                let mut got = vec![f64::NAN; g.n];
                for (id, s) in &res { if let Some(i) = g.index_of(*id) { got[i] = *s; } }
                let matched: Vec<usize> = (1..=case.iterations).filter(|&k| got.iter().zip(&iterates[k - 1]).all(|(a, b)| rel_close(*a, *b))).collect();
                if !seen.contains(&matched) { seen.push(matched); }
            }
            if seen.len() > 1 && seen.iter().all(|m| !m.is_empty()) {
                add("pr-exit-schedule-dependent", format!(
                    "n={} tolerance={:?} ({}): 12 runs on the same {threads}-thread pool stop after iterations {:?}; sequential L1 changes {:?}",
                    g.n, case.tolerance, case.tol_note, seen, diffs));
                info.push_str(" same_pool_flip=1");
            }
        }
        info.push_str(&format!(" acceptable={:?}", acceptable));
    }
    let alg = if case.kind == Kind::Cdlp { "cdlp" } else { "page_rank" };
    Outcome {
        violations,
        // non-trivial: the graph is at/above the crate's parallel threshold (n >= 1000), so the rayon branch
        // is the code that ran on the multi-thread pool
        nontrivial: parallel_branch && pools.iter().any(|(t, _)| *t > 1),
        key: format!("{}|{}", alg, case.seed),
        info: format!("algorithm={alg} kind={:?} n={} m={}{}", case.kind, g.n, g.edges.len(), info),
        desc: case.describe(),
    }
}

/// Every simple directed graph on 1..=max_n nodes (no self-loops), sequential branch: page_rank with and
/// without redistribution (cap and tolerance) and cdlp, against the references. Returns (graphs, evaluations, violations).
pub fn exhaustive(max_n: usize, pool: &rayon::ThreadPool) -> (u64, u64, Vec<Violation>) {
    let mut violations: Vec<Violation> = vec![];
    let mut graphs = 0u64;
    let mut evals = 0u64;
    for n in 1..=max_n {
        let pairs: Vec<(usize, usize)> = (0..n).flat_map(|u| (0..n).filter(move |v| *v != u).map(move |v| (u, v))).collect();
        // two id assignments: ascending, and descending (label order opposite to index order)
        for mask in 0u64..(1u64 << pairs.len()) {
            let edges: Vec<(usize, usize)> = pairs.iter().enumerate().filter(|(i, _)| mask >> i & 1 == 1).map(|(_, e)| *e).collect();
            for desc in [false, true] {
                let ids: Vec<u64> = (0..n as u64).map(|i| if desc { 10 + (n as u64 - 1 - i) * 2 } else { 1 + i }).collect();
                let g = Graph { n, ids, edges: edges.clone(), base: 0, stride: 1, inv: vec![] };
                graphs += 1;
                for (kind, dangling, iters, tol) in [(Kind::PrCap, true, 3usize, 0.0), (Kind::PrCap, false, 2, 0.0), (Kind::PrTol, true, 12, 1e-3), (Kind::Cdlp, false, 4, 0.0)] {
                    if desc && kind != Kind::Cdlp { continue; }
                    let case = Case { seed: mask, big: true, kind, g: Graph { n, ids: g.ids.clone(), edges: g.edges.clone(), base: 0, stride: 1, inv: vec![] }, damping: 0.85, dangling, iterations: iters, tolerance: tol, tol_note: "fixed".into(), shape: "exhaustive" };
                    let out = check(&case, &[(1, pool)]);
                    evals += 1;
                    for mut v in out.violations {
                        if !violations.iter().any(|x| x.signature == v.signature) {
                            v.detail = format!("exhaustive n={n} edges={:?} ids={:?}: {}", case.g.edges, case.g.ids, v.detail);
                            violations.push(v);
                        }
                    }
                }
            }
        }
    }
    (graphs, evals, violations)
}
