//! C34 — optimization solvers: in-bounds, consistent, monotone history, schedule-independent, non-dominated fronts.
//!
//! One case seed = one (solver variant, box-constrained problem, configuration, solver seed).
//! The case is solved on a rayon pool of N threads (the schedule under test: under Miri the
//! interleaving of the N workers is decided by -Zmiri-seed) and on a 1-thread pool (the
//! sequential schedule) in the same process; results must be bit-identical and each must
//! satisfy the invariants.

use crate::prng::{mix, Prng};
use crate::{Outcome, Violation};
use ndarray::Array1;
use samyama_optimization::algorithms::*;
use samyama_optimization::common::*;
use std::panic::{catch_unwind, AssertUnwindSafe};
use std::sync::atomic::{AtomicU64, Ordering};

pub const VARIANTS: &[&str] = &[
    // single-objective (29)
    "Jaya", "Rao1", "Rao2", "Rao3", "TLBO", "BMR", "BWR", "QOJaya", "ITLBO", "PSO", "DE", "GOTLBO",
    "Firefly", "Cuckoo", "GWO", "GA", "SA", "Bat", "ABC", "GSA", "HS", "FPA", "BMWR", "SAMPJaya",
    "EHRJaya", "QORao1", "QORao2", "QORao3", "SAPHR",
    // multi-objective (6)
    "NSGA2", "MOTLBO", "MOBMR", "MOBWR", "MOBMWR", "MORaoDE",
];
pub const FIRST_MO: usize = 29;

#[derive(Clone, Copy, Debug, PartialEq)]
pub enum Obj { Sphere, L1, Const, Step, Linear, Ridge, NegSphere, NegL1, CornerL1 }
#[derive(Clone, Copy, Debug, PartialEq)]
pub enum Pen { None, Quad, Step }
#[derive(Clone, Copy, Debug, PartialEq)]
pub enum MoObj { Schaffer, Conflict, StepPair, Const, FarNear, Slopes }

/// Four problems per case seed, so that every case exercises (a) a solve whose outcome depends on
/// every random draw, (b) a solve full of equal fitness values, (c) a box with thin/point coordinates,
/// (d) a solve that ends ON the boundary of a box whose bounds are "ordinary" numbers for a user and
/// awkward ones for binary floating point (0.1, 0.3, 2/3, pi: lower+upper, upper-lower, the centre are
/// all rounded), with the optimum in a corner (linear, distance to a corner) or in every corner
/// (concave: as far from a reference point as the box allows). There the solvers' bound handling
/// (clamping, reflection, opposition lower+upper-x, re-sampling) is what produces the returned
/// coordinates, and "inside the variable bounds" is judged exactly, to the last bit.
pub const FLAVOURS: &[&str] = &["smooth", "ties", "edgy", "corner"];
/// Further corner problems per case seed in the native modes (cheap there: 1-thread pool only).
pub const NATIVE_EXTRA_CORNER: usize = 5;

pub struct Case {
    pub seed: u64,
    pub big: bool,
    pub flavour: usize,
    /// 0 = the problem of this flavour that every mode runs; 1.. = further corner problems of the same case
    /// seed, run natively only and on the 1-thread pool only (the in-bounds clause is about inputs, not schedules)
    pub sub: usize,
    pub variant: usize,
    pub dim: usize,
    pub pop: usize,
    pub iters: usize,
    pub solver_seed: u64,
    pub lo: Vec<f64>,
    pub hi: Vec<f64>,
    pub bound_kinds: Vec<&'static str>,
    pub obj: Obj,
    pub mo_obj: MoObj,
    pub n_obj: usize,
    pub c: Vec<f64>,
    pub a: Vec<f64>,
    pub pen: Pen,
    pub thr: f64,
    pub w: f64,
    pub degenerate: bool,
}

impl Case {
    pub fn is_mo(&self) -> bool { self.variant >= FIRST_MO }
    pub fn solver(&self) -> &'static str { VARIANTS[self.variant] }

    /// `big` = the native size class (dim 1-6, pop 4-12, 2-8 iterations); otherwise the Miri
    /// size class (dim 1-3, pop 4-8, 2-4 iterations).
    pub fn generate(seed: u64, big: bool, flavour: usize) -> Case { Case::generate_sub(seed, big, flavour, 0) }

    pub fn generate_sub(seed: u64, big: bool, flavour: usize, sub: usize) -> Case {
        let variant = (seed % VARIANTS.len() as u64) as usize;
        let mut r = Prng::new(seed, (if big { 0xC34B0 } else { 0xC34A0 }) + flavour as u64 + 0x100 * sub as u64);
        let dim = if big { r.range(1, 6) } else { r.range(1, 3) } as usize;
        let pop = if big { r.range(4, 12) } else { r.range(4, 8) } as usize;
        let iters = if big { r.range(2, 8) } else { r.range(2, 4) } as usize;
        let solver_seed = mix(r.next());
        if flavour == 3 { return Case::corner(seed, big, sub, variant, &mut r, dim, pop, iters, solver_seed); }
        let mut lo = vec![];
        let mut hi = vec![];
        let mut kinds = vec![];
        let mut degenerate = false;
        // smooth / ties: wide coordinates only (ties: one thin now and then); edgy: at least one thin or
        // point coordinate, a point (lo == hi) one in every second edgy case
        let want_degenerate = flavour == 2 && r.chance(1, 2);
        let special_at = r.below(dim as u64) as usize;
        for j in 0..dim {
            let wide = *r.pick(&[0u64, 1, 2, 4]);
            let k = match flavour {
                0 => wide,
                1 => if r.chance(1, 8) { 3 } else { wide },
                _ => if j == special_at { if want_degenerate { 5 } else { 3 } } else { r.below(5) },
            };
            let (l, h, name) = match k {
                0 => { let a = *r.pick(&[1.0, 5.0, 10.0, 0.5]); (-a, a, "sym") }
                1 => { let a = 0.25 + 3.0 * r.unit(); let w = 0.5 + 10.0 * r.unit(); (a, a + w, "pos") }
                2 => { let a = 0.25 + 3.0 * r.unit(); let w = 0.5 + 10.0 * r.unit(); (-(a + w), -a, "neg") }
                3 => { let c = -2.0 + 4.0 * r.unit(); (c, c + 1e-6, "thin") }
                4 => { let a = 1.0 + r.unit(); (-a, 100.0 * a, "lopsided") }
                _ => { let c = *r.pick(&[0.0, 1.5, -2.0, 3.25]); degenerate = true; (c, c, "point") }
            };
            lo.push(l); hi.push(h); kinds.push(name);
        }
        let obj = match flavour {
            0 => *r.pick(&[Obj::Sphere, Obj::L1, Obj::Ridge, Obj::Sphere]),
            1 => *r.pick(&[Obj::Step, Obj::Const, Obj::Step]),
            _ => *r.pick(&[Obj::Sphere, Obj::L1, Obj::Const, Obj::Step, Obj::Linear, Obj::Ridge]),
        };
        let mo_obj = match flavour {
            0 => *r.pick(&[MoObj::Schaffer, MoObj::Schaffer, MoObj::Conflict]),
            1 => *r.pick(&[MoObj::StepPair, MoObj::Const, MoObj::StepPair]),
            _ => *r.pick(&[MoObj::Schaffer, MoObj::Conflict, MoObj::StepPair, MoObj::Const]),
        };
        let n_obj = r.range(2, 3) as usize;
        let c: Vec<f64> = (0..dim).map(|j| lo[j] + (hi[j] - lo[j]) * (r.unit() * 1.4 - 0.2)).collect();
        let a: Vec<f64> = (0..dim).map(|_| *r.pick(&[1.0, -1.0, 0.5, -2.0, 0.0])).collect();
        let pen = *r.pick(&[Pen::None, Pen::None, Pen::Quad, Pen::Step]);
        let thr = lo[0] + (hi[0] - lo[0]) * r.unit();
        let w = *r.pick(&[1.0, 10.0, 1000.0]);
        Case { seed, big, flavour, sub: 0, variant, dim, pop, iters, solver_seed, lo, hi, bound_kinds: kinds, obj, mo_obj, n_obj, c, a, pen, thr, w, degenerate }
    }

    /// The "corner" problem (flavour 3). Bounds per coordinate from: decimal fractions (tenths, hundredths,
    /// thousandths: 0.1, 0.3, 0.7, -1.25 ...), small rationals (thirds, sevenths ...), multiples of
    /// irrational constants, random 53-bit values, a box a few ulps wide, and the lopsided / positive /
    /// negative families of the other flavours. None of them is symmetric on purpose (a symmetric box has
    /// lower+upper == 0 exactly). Natively (big) the solve is long enough to settle on the boundary.
    #[allow(clippy::too_many_arguments)]
    fn corner(seed: u64, big: bool, sub: usize, variant: usize, r: &mut Prng, dim: usize, pop: usize, iters: usize, solver_seed: u64) -> Case {
        let iters = if big { *r.pick(&[iters, iters, 12, 20, 30]) } else { iters };
        let mut lo = vec![];
        let mut hi = vec![];
        let mut kinds = vec![];
        // one family for the whole box in half of the cases (every coordinate awkward in the same way)
        let same = if r.chance(1, 2) { Some(r.below(9)) } else { None };
        for _ in 0..dim {
            let k = same.unwrap_or_else(|| r.below(9));
            let (l, h, name): (f64, f64, &'static str) = match k {
                0 | 1 | 2 => {
                    // p/q and (p+w)/q as the nearest doubles (what a user's literal 0.1 or 0.3 is)
                    let (q, name) = match k { 0 => (10.0, "tenths"), 1 => (100.0, "hundredths"), _ => (*r.pick(&[3.0, 7.0, 9.0, 11.0, 1000.0]), "fraction") };
                    let span = if k == 0 { 30 } else { 300 };
                    let p = r.range(0, 2 * span) as i64 - span as i64;
                    let w = r.range(1, if k == 0 { 40 } else { 150 }) as i64;
                    (p as f64 / q, (p + w) as f64 / q, name)
                }
                3 => {
                    use std::f64::consts::{E, LN_2, PI, SQRT_2};
                    let k1 = *r.pick(&[PI, E, SQRT_2, LN_2, 1.0 / 3.0, 0.1]);
                    let k2 = *r.pick(&[PI, E, SQRT_2, LN_2, 1.0 / 3.0, 0.1]);
                    let l = k1 * (r.range(0, 8) as f64 - 4.0);
                    (l, l + k2 * r.range(1, 4) as f64, "irrational")
                }
                4 => { let l = -4.0 + 8.0 * r.unit(); (l, l + (0.001 + r.unit()) * *r.pick(&[0.01, 1.0, 1.0, 30.0]), "random") }
                5 => {
                    // a handful of ulps wide: every operation on the coordinate is at rounding scale
                    let l = *r.pick(&[0.1, 0.3, -0.7, 1.0 / 3.0, 2.5, -1e3 / 7.0]);
                    let k = r.range(1, 8) as i64;
                    // towards +inf: bit pattern up for a positive value, down for a negative one
                    (l, f64::from_bits((l.to_bits() as i64 + if l > 0.0 { k } else { -k }) as u64), "ulps")
                }
                6 => { let a = 1.0 + r.unit(); (-a, 100.0 * a, "lopsided") }
                7 => { let a = 0.25 + 3.0 * r.unit(); let w = 0.5 + 10.0 * r.unit(); (a, a + w, "pos") }
                _ => { let a = 0.25 + 3.0 * r.unit(); let w = 0.5 + 10.0 * r.unit(); (-(a + w), -a, "neg") }
            };
            debug_assert!(l < h);
            lo.push(l); hi.push(h); kinds.push(name);
        }
        // linear with no zero slope / distance to one corner: the optimum is a corner; concave: every corner
        // is a local optimum, so individuals are driven onto both bounds of a coordinate
        let obj = *r.pick(&[Obj::NegSphere, Obj::NegSphere, Obj::NegSphere, Obj::NegSphere, Obj::NegL1, Obj::NegL1, Obj::Linear, Obj::CornerL1]);
        let mo_obj = *r.pick(&[MoObj::Conflict, MoObj::FarNear, MoObj::FarNear, MoObj::Slopes]);
        let n_obj = r.range(2, 3) as usize;
        let c: Vec<f64> = (0..dim).map(|j| match obj {
            Obj::CornerL1 => if r.chance(1, 2) { lo[j] } else { hi[j] },
            // reference point inside the box, now and then exactly in the middle or outside
            _ => match r.below(8) { 0 => (lo[j] + hi[j]) / 2.0, 1 => lo[j] - 0.5, _ => lo[j] + (hi[j] - lo[j]) * r.unit() },
        }).collect();
        let a: Vec<f64> = (0..dim).map(|_| *r.pick(&[1.0, -1.0, 0.5, -2.0, 3.0, -0.25])).collect();
        let pen = *r.pick(&[Pen::None, Pen::None, Pen::None, Pen::None, Pen::None, Pen::None, Pen::Quad, Pen::Step]);
        let thr = lo[0] + (hi[0] - lo[0]) * r.unit();
        let w = *r.pick(&[1.0, 10.0, 1000.0]);
        Case { seed, big, flavour: 3, sub, variant, dim, pop, iters, solver_seed, lo, hi, bound_kinds: kinds, obj, mo_obj, n_obj, c, a, pen, thr, w, degenerate: false }
    }

    pub fn problem_name(&self) -> String {
        if self.sub == 0 { FLAVOURS[self.flavour].to_string() } else { format!("{}#{}", FLAVOURS[self.flavour], self.sub) }
    }

    pub fn describe(&self) -> String {
        let b: Vec<String> = (0..self.dim).map(|j| format!("[{:?},{:?}]:{}", self.lo[j], self.hi[j], self.bound_kinds[j])).collect();
        let objective = if self.is_mo() { format!("{:?}x{}", self.mo_obj, self.n_obj) } else { format!("{:?}", self.obj) };
        format!(
            "{{\"case\":{},\"class\":\"{}\",\"problem\":\"{}\",\"solver\":\"{}\",\"dim\":{},\"pop\":{},\"iters\":{},\"solver_seed\":{},\"bounds\":\"{}\",\"objective\":\"{}\",\"penalty\":\"{:?}\",\"thr\":{:?},\"w\":{:?}}}",
            self.seed, if self.big { "big" } else { "small" }, self.problem_name(), self.solver(), self.dim, self.pop, self.iters, self.solver_seed,
            b.join(" "), objective, self.pen, self.thr, self.w
        )
    }
}

/// The generated problem; records which rayon workers evaluated it.
pub struct Prob<'a> {
    pub case: &'a Case,
    pub workers: AtomicU64,
    pub evals: AtomicU64,
}

impl<'a> Prob<'a> {
    pub fn new(case: &'a Case) -> Self { Prob { case, workers: AtomicU64::new(0), evals: AtomicU64::new(0) } }
    fn touch(&self) {
        let idx = rayon::current_thread_index().unwrap_or(63).min(63);
        self.workers.fetch_or(1u64 << idx, Ordering::Relaxed);
        self.evals.fetch_add(1, Ordering::Relaxed);
        // give the other workers of the pool a chance to steal the sibling tasks (the objective is
        // far cheaper than a steal): natively an OS yield, under Miri a scheduler decision point
        std::thread::yield_now();
    }
    fn obj_value(&self, v: &Array1<f64>) -> f64 {
        let c = self.case;
        match c.obj {
            Obj::Sphere => v.iter().zip(&c.c).map(|(x, c)| (x - c) * (x - c)).sum(),
            Obj::L1 => v.iter().zip(&c.c).map(|(x, c)| (x - c).abs()).sum(),
            Obj::Const => 1.5,
            Obj::Step => v.iter().map(|x| x.floor()).sum(),
            Obj::Linear => v.iter().zip(&c.a).map(|(x, a)| a * x).sum(),
            Obj::Ridge => { let s: f64 = v.iter().sum(); s * s }
            Obj::NegSphere => -v.iter().zip(&c.c).map(|(x, c)| (x - c) * (x - c)).sum::<f64>(),
            Obj::NegL1 => -v.iter().zip(&c.c).map(|(x, c)| (x - c).abs()).sum::<f64>(),
            Obj::CornerL1 => v.iter().zip(&c.c).map(|(x, c)| (x - c).abs()).sum(),
        }
    }
    fn pen_value(&self, v: &Array1<f64>) -> f64 {
        let c = self.case;
        match c.pen {
            Pen::None => 0.0,
            Pen::Quad => { let e = (v[0] - c.thr).max(0.0); c.w * e * e }
            Pen::Step => { let s: f64 = v.iter().sum(); if s > c.thr { c.w } else { 0.0 } }
        }
    }
}

impl<'a> Problem for Prob<'a> {
    fn objective(&self, v: &Array1<f64>) -> f64 { self.touch(); self.obj_value(v) }
    fn penalty(&self, v: &Array1<f64>) -> f64 { self.pen_value(v) }
    fn dim(&self) -> usize { self.case.dim }
    fn bounds(&self) -> (Array1<f64>, Array1<f64>) { (Array1::from(self.case.lo.clone()), Array1::from(self.case.hi.clone())) }
}

impl<'a> MultiObjectiveProblem for Prob<'a> {
    fn objectives(&self, v: &Array1<f64>) -> Vec<f64> {
        self.touch();
        let c = self.case;
        let mut f = match c.mo_obj {
            MoObj::Schaffer => vec![
                v.iter().zip(&c.c).map(|(x, c)| (x - c) * (x - c)).sum(),
                v.iter().zip(&c.c).map(|(x, c)| (x - c - 2.0) * (x - c - 2.0)).sum(),
                v.iter().map(|x| x.abs()).sum(),
            ],
            MoObj::Conflict => { let s: f64 = v.iter().sum(); vec![s, -s, 1.0] }
            MoObj::StepPair => vec![v.iter().map(|x| x.floor()).sum(), v.iter().map(|x| (-x).floor()).sum(), v.iter().map(|x| (0.5 * x).floor()).sum()],
            MoObj::Const => vec![1.0, 2.0, 3.0],
            // away from the reference point / towards it / away in L1: the front reaches into the corners
            MoObj::FarNear => vec![
                -v.iter().zip(&c.c).map(|(x, c)| (x - c) * (x - c)).sum::<f64>(),
                v.iter().zip(&c.c).map(|(x, c)| (x - c) * (x - c)).sum(),
                -v.iter().zip(&c.c).map(|(x, c)| (x - c).abs()).sum::<f64>(),
            ],
            // linear objectives with different slopes: the front is a set of corners and edges
            MoObj::Slopes => vec![
                v.iter().zip(&c.a).map(|(x, a)| a * x).sum(),
                v.iter().zip(&c.a).map(|(x, a)| -a * x).sum(),
                v.iter().sum(),
            ],
        };
        f.truncate(c.n_obj);
        f
    }
    fn penalties(&self, v: &Array1<f64>) -> Vec<f64> {
        match self.case.pen {
            Pen::None => vec![],
            _ => vec![self.pen_value(v)],
        }
    }
    fn dim(&self) -> usize { self.case.dim }
    fn bounds(&self) -> (Array1<f64>, Array1<f64>) { (Array1::from(self.case.lo.clone()), Array1::from(self.case.hi.clone())) }
    fn num_objectives(&self) -> usize { self.case.n_obj }
}

pub enum Res { So(OptimizationResult), Mo(MultiObjectiveResult) }

fn solve(case: &Case, p: &Prob) -> Res {
    let cfg = SolverConfig { population_size: case.pop, max_iterations: case.iters };
    let s = case.solver_seed;
    let so = |r: OptimizationResult| Res::So(r);
    match case.solver() {
        "Jaya" => so(JayaSolver::new(cfg).with_seed(s).solve(p)),
        "Rao1" => so(RaoSolver::new(cfg, RaoVariant::Rao1).with_seed(s).solve(p)),
        "Rao2" => so(RaoSolver::new(cfg, RaoVariant::Rao2).with_seed(s).solve(p)),
        "Rao3" => so(RaoSolver::new(cfg, RaoVariant::Rao3).with_seed(s).solve(p)),
        "TLBO" => so(TLBOSolver::new(cfg).with_seed(s).solve(p)),
        "BMR" => so(BMRSolver::new(cfg).with_seed(s).solve(p)),
        "BWR" => so(BWRSolver::new(cfg).with_seed(s).solve(p)),
        "QOJaya" => so(QOJayaSolver::new(cfg).with_seed(s).solve(p)),
        "ITLBO" => so(ITLBOSolver::new(cfg).with_seed(s).solve(p)),
        "PSO" => so(PSOSolver::new(cfg).with_seed(s).solve(p)),
        "DE" => so(DESolver::new(cfg).with_seed(s).solve(p)),
        "GOTLBO" => so(GOTLBOSolver::new(cfg).with_seed(s).solve(p)),
        "Firefly" => so(FireflySolver::new(cfg).with_seed(s).solve(p)),
        "Cuckoo" => so(CuckooSolver::new(cfg).with_seed(s).solve(p)),
        "GWO" => so(GWOSolver::new(cfg).with_seed(s).solve(p)),
        "GA" => so(GASolver::new(cfg).with_seed(s).solve(p)),
        "SA" => so(SASolver::new(cfg).with_seed(s).solve(p)),
        "Bat" => so(BatSolver::new(cfg).with_seed(s).solve(p)),
        "ABC" => so(ABCSolver::new(cfg).with_seed(s).solve(p)),
        "GSA" => so(GSASolver::new(cfg).with_seed(s).solve(p)),
        "HS" => so(HSSolver::new(cfg).with_seed(s).solve(p)),
        "FPA" => so(FPASolver::new(cfg).with_seed(s).solve(p)),
        "BMWR" => so(BMWRSolver::new(cfg).with_seed(s).solve(p)),
        "SAMPJaya" => so(SAMPJayaSolver::new(cfg).with_seed(s).solve(p)),
        "EHRJaya" => so(EHRJayaSolver::new(cfg).with_seed(s).solve(p)),
        "QORao1" => so(QORaoSolver::new(cfg, RaoVariant::Rao1).with_seed(s).solve(p)),
        "QORao2" => so(QORaoSolver::new(cfg, RaoVariant::Rao2).with_seed(s).solve(p)),
        "QORao3" => so(QORaoSolver::new(cfg, RaoVariant::Rao3).with_seed(s).solve(p)),
        "SAPHR" => so(SAPHRSolver::new(cfg).with_seed(s).solve(p)),
        "NSGA2" => Res::Mo(NSGA2Solver::new(cfg).with_seed(s).solve(p)),
        "MOTLBO" => Res::Mo(MOTLBOSolver::new(cfg).with_seed(s).solve(p)),
        "MOBMR" => Res::Mo(MOBMWRSolver::new(cfg, MOBMWRVariant::MOBMR).with_seed(s).solve(p)),
        "MOBWR" => Res::Mo(MOBMWRSolver::new(cfg, MOBMWRVariant::MOBWR).with_seed(s).solve(p)),
        "MOBMWR" => Res::Mo(MOBMWRSolver::new(cfg, MOBMWRVariant::MOBMWR).with_seed(s).solve(p)),
        "MORaoDE" => Res::Mo(MORaoDESolver::new(cfg).with_seed(s).solve(p)),
        other => panic!("harness: unknown solver {other}"),
    }
}

/// The observable result as raw bits (f64::to_bits), in a fixed order.
fn bits(r: &Res) -> Vec<u64> {
    let mut v = vec![];
    match r {
        Res::So(r) => {
            v.push(r.best_variables.len() as u64);
            v.extend(r.best_variables.iter().map(|x| x.to_bits()));
            v.push(r.best_fitness.to_bits());
            v.push(r.history.len() as u64);
            v.extend(r.history.iter().map(|x| x.to_bits()));
        }
        Res::Mo(r) => {
            v.push(r.pareto_front.len() as u64);
            for m in &r.pareto_front {
                v.extend(m.variables.iter().map(|x| x.to_bits()));
                v.extend(m.fitness.iter().map(|x| x.to_bits()));
                v.push(m.constraint_violation.to_bits());
            }
            v.push(r.history.len() as u64);
            v.extend(r.history.iter().map(|x| x.to_bits()));
        }
    }
    v
}

fn summary(r: &Res) -> String {
    match r {
        Res::So(r) => format!("best={:?} f={:?} hist={:?}", r.best_variables.to_vec(), r.best_fitness, r.history),
        Res::Mo(r) => format!(
            "front={:?} hist={:?}",
            r.pareto_front.iter().map(|m| (m.variables.to_vec(), m.fitness.clone(), m.constraint_violation)).collect::<Vec<_>>(),
            r.history
        ),
    }
}

fn same_f(a: f64, b: f64) -> bool { a == b || (a.is_nan() && b.is_nan()) }

/// Invariants of one result (everything in the statement except schedule independence).
fn invariants(case: &Case, r: &Res, threads: usize, out: &mut Vec<Violation>) {
    let name = case.solver();
    let silent = Prob::new(case);
    let mut add = |kind: &str, detail: String| {
        let sig = format!("{kind}/{name}");
        if !out.iter().any(|v| v.signature == sig) {
            out.push(Violation { signature: sig, detail: format!("threads={threads} {detail}") });
        }
    };
    match r {
        Res::So(r) => {
            if r.best_variables.len() != case.dim {
                add("out-of-bounds", format!("best has {} coordinates, problem has {}", r.best_variables.len(), case.dim));
                return;
            }
            for j in 0..case.dim {
                let x = r.best_variables[j];
                if !(x >= case.lo[j] && x <= case.hi[j]) {
                    add("out-of-bounds", format!("best[{j}]={x:?} outside [{:?},{:?}]", case.lo[j], case.hi[j]));
                }
            }
            let f = Problem::fitness(&silent, &r.best_variables);
            if !same_f(f, r.best_fitness) {
                add("fitness-mismatch", format!("fitness(best)={f:?} but best_fitness={:?} best={:?}", r.best_fitness, r.best_variables.to_vec()));
            }
            if r.best_fitness.is_nan() {
                add("nan", "best_fitness is NaN".into());
            }
            for i in 1..r.history.len() {
                if !(r.history[i] <= r.history[i - 1]) {
                    add("history-increase", format!("history[{}]={:?} > history[{}]={:?} (history={:?})", i, r.history[i], i - 1, r.history[i - 1], r.history));
                    break;
                }
            }
            if let Some(&last) = r.history.last() {
                if !(r.best_fitness <= last) {
                    add("final-worse-than-history", format!("best_fitness={:?} > last history entry {:?}", r.best_fitness, last));
                }
            }
        }
        Res::Mo(r) => {
            for (i, m) in r.pareto_front.iter().enumerate() {
                if m.variables.len() != case.dim {
                    add("front-out-of-bounds", format!("member {i} has {} coordinates", m.variables.len()));
                    continue;
                }
                for j in 0..case.dim {
                    let x = m.variables[j];
                    if !(x >= case.lo[j] && x <= case.hi[j]) {
                        add("front-out-of-bounds", format!("member {i} x[{j}]={x:?} outside [{:?},{:?}]", case.lo[j], case.hi[j]));
                    }
                }
                let f = silent.objectives(&m.variables);
                if f.len() != m.fitness.len() || f.iter().zip(&m.fitness).any(|(a, b)| !same_f(*a, *b)) {
                    add("front-fitness-mismatch", format!("member {i}: objectives(x)={f:?} but fitness={:?} x={:?}", m.fitness, m.variables.to_vec()));
                }
            }
            // "no member dominates another": Pareto dominance in objective space. Judged only
            // between two feasible members (violation 0 recomputed), where Deb's constrained
            // dominance and plain Pareto dominance coincide: the weaker reading of the statement.
            let feas: Vec<bool> = r.pareto_front.iter().map(|m| silent.penalties(&m.variables).iter().sum::<f64>() == 0.0).collect();
            'outer: for (i, a) in r.pareto_front.iter().enumerate() {
                for (j, b) in r.pareto_front.iter().enumerate() {
                    if i == j || !feas[i] || !feas[j] || a.fitness.len() != b.fitness.len() { continue; }
                    let le = a.fitness.iter().zip(&b.fitness).all(|(x, y)| x <= y);
                    let lt = a.fitness.iter().zip(&b.fitness).any(|(x, y)| x < y);
                    if le && lt {
                        add("front-dominated", format!("member {i} {:?} dominates member {j} {:?}", a.fitness, b.fitness));
                        break 'outer;
                    }
                }
            }
        }
    }
}

pub struct Run { pub res: Result<Res, String>, pub workers: u64, pub evals: u64 }

pub fn run_on(case: &Case, pool: &rayon::ThreadPool) -> Run {
    let p = Prob::new(case);
    let res = catch_unwind(AssertUnwindSafe(|| pool.install(|| solve(case, &p))));
    let res = res.map_err(|e| {
        if let Some(s) = e.downcast_ref::<String>() { s.clone() }
        else if let Some(s) = e.downcast_ref::<&str>() { s.to_string() }
        else { "panic (non-string payload)".to_string() }
    });
    Run { res, workers: p.workers.load(Ordering::Relaxed), evals: p.evals.load(Ordering::Relaxed) }
}

/// Check one case seed (its four problems, plus `extra_corner` further corner problems on pools[0] only) on
/// the given pools; pools[0] must be the 1-thread (reference) pool.
pub fn check(seed: u64, big: bool, pools: &[(usize, &rayon::ThreadPool)], extra_corner: usize) -> Outcome {
    let mut all = Outcome { violations: vec![], nontrivial: false, key: String::new(), info: String::new(), desc: String::new() };
    let mut descs = vec![];
    let mut infos = vec![];
    let problems = (0..FLAVOURS.len()).map(|f| (f, 0)).chain((1..=extra_corner).map(|k| (3, k)));
    for (flavour, sub) in problems {
        let case = Case::generate_sub(seed, big, flavour, sub);
        let o = check_one(&case, if sub == 0 { pools } else { &pools[..1] });
        all.nontrivial |= o.nontrivial;
        all.key = o.key;
        for mut v in o.violations {
            if !all.violations.iter().any(|x| x.signature == v.signature) {
                v.detail = format!("{} || failing problem: {}", v.detail, o.desc);
                all.violations.push(v);
            }
        }
        if sub == 0 { infos.push(format!("{}:{}", FLAVOURS[flavour], o.info)); descs.push(o.desc); }
        else { infos.push(format!("{}:{}", case.problem_name(), o.info.split(',').last().unwrap_or(""))); }
    }
    all.info = format!("solver={} {}", VARIANTS[(seed % VARIANTS.len() as u64) as usize], infos.join(" "));
    all.desc = format!("{{\"solver\":\"{}\",\"problems\":[{}]}}", VARIANTS[(seed % VARIANTS.len() as u64) as usize], descs.join(","));
    all
}

fn check_one(case: &Case, pools: &[(usize, &rayon::ThreadPool)]) -> Outcome {
    let name = case.solver();
    let mut violations: Vec<Violation> = vec![];
    let mut runs = vec![];
    for (n, pool) in pools {
        let run = run_on(case, pool);
        match &run.res {
            Ok(r) => invariants(case, r, *n, &mut violations),
            Err(msg) => {
                // one root cause in every solver (sampling from `lo..hi`): one signature for the class
                let sig = if case.degenerate && msg.contains("empty range") { "panic-degenerate-bounds".to_string() } else { format!("panic/{name}") };
                if !violations.iter().any(|v| v.signature == sig) {
                    violations.push(Violation { signature: sig, detail: format!("solver={name} threads={n} solve() panicked: {}", msg.replace('\n', " ")) });
                }
            }
        }
        runs.push((*n, run));
    }
    // schedule independence: every pool's result is bit-identical to the 1-thread result
    let mut max_workers = 0u32;
    if let Ok(r0) = &runs[0].1.res {
        let b0 = bits(r0);
        for (n, run) in runs.iter().skip(1) {
            max_workers = max_workers.max(run.workers.count_ones());
            if let Ok(r) = &run.res {
                if bits(r) != b0 {
                    let sig = format!("schedule-dependent/{name}");
                    if !violations.iter().any(|v| v.signature == sig) {
                        violations.push(Violation {
                            signature: sig,
                            detail: format!("1 thread: {} | {} threads: {}", summary(r0), n, summary(r)),
                        });
                    }
                }
            }
        }
    } else {
        for (_, run) in runs.iter().skip(1) { max_workers = max_workers.max(run.workers.count_ones()); }
    }
    let evals: u64 = runs.iter().map(|(_, r)| r.evals).sum();
    let fp = match &runs[0].1.res { Ok(r) => bits(r).iter().fold(0u64, |h, b| crate::prng::fnv(h, &b.to_le_bytes())), Err(_) => 0 };
    Outcome {
        violations,
        // non-trivial: fitness evaluations of the multi-thread solve ran on >= 2 distinct rayon workers
        nontrivial: max_workers >= 2,
        key: format!("{}|{}", name, case.seed),
        info: format!("workers_seen={},evals={},fp={:08x}", max_workers, evals, fp as u32),
        desc: case.describe(),
    }
}
