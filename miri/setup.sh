#!/bin/bash
# Pre-builds the Miri sysroot, the Miri build and the native release build of sched-check
# (one tiny case each), so the first check does not pay for them.
cd "$(dirname "$0")"
./run.sh C34 quick --cases 1 --native-cases 1 --no-evidence >/dev/null 2>&1 || true
./run.sh C27 quick --cases 1 --native-cases 1 --no-evidence >/dev/null 2>&1 || true
exit 0
