#!/bin/bash
# run.sh <C27|C34> <quick|thorough> [--replay FILE] [--ignore-known] [...]
# Thread-schedule independence checks decided under Miri (seeded deterministic thread scheduler) plus a
# broad native pass; see the head of driver.py for the options and src/main.rs for the checker's modes.
# Exit: 0 held / known findings only, 1 VIOLATION, 2 harness error.
HERE="$(cd "$(dirname "$0")" && pwd)"
command -v python3 >/dev/null || { echo "harness error: python3 not found" >&2; exit 2; }
exec python3 "$HERE/driver.py" "$@"
