#!/usr/bin/env python3
"""Driver for the Miri-scheduled checks C27 / C34 (see run.sh).

  run.sh <C27|C34> <quick|thorough> [--replay FILE] [--ignore-known] [--jobs N]
         [--cases N] [--schedules N] [--native-cases N] [--no-miri] [--no-native] [--no-evidence]

Two passes over the same case-seed list (derived from VERIF_SEED, default 1):
  * Miri pass: `sched-check <prop> <case> miri` interpreted by Miri, whose thread scheduler is
    seeded (-Zmiri-seed / -Zmiri-many-seeds): one (case seed, Miri seed) pair = one exactly
    repeatable interleaving of the rayon workers.
  * native pass: the same cases plus their bigger variants on real rayon pools of 1, 3 and 8
    threads (`cargo build --release`), many more cases, OS-scheduled (broad, not replayable
    schedule-wise; failures are reported with the case seed).
Exit: 0 held / known findings only, 1 VIOLATION, 2 harness error.
"""
import concurrent.futures as cf
import json
import os
import re
import subprocess
import sys
import time

HERE = os.path.dirname(os.path.abspath(__file__))
VERIF_DIR = os.environ.get("VERIF_DIR", "/verif")
TARGET = os.environ.get("VERIF_MIRI_TARGET", os.path.join(VERIF_DIR, "target", "miri-crate"))
TOOLCHAIN = os.environ.get("VERIF_MIRI_TOOLCHAIN", "+nightly")

# Miri is used as a seeded thread scheduler, not as a UB checker: every optional check is off.
#  - stacked borrows off / permissive provenance: crossbeam-epoch (inside rayon) trips them;
#  - ignore-leaks: the rayon pools outlive main;
#  - deterministic-floats: Miri otherwise adds seeded random error to inexact float operations (exp,
#    powf ... used by several solvers); drawn in execution order, that would make bits depend on the
#    schedule for a reason that does not exist natively.
MIRI_BASE_FLAGS = (
    "-Zmiri-preemption-rate=0.1 -Zmiri-disable-stacked-borrows -Zmiri-permissive-provenance "
    "-Zmiri-ignore-leaks -Zmiri-deterministic-floats -Zmiri-disable-validation "
    "-Zmiri-disable-data-race-detector -Zmiri-disable-alignment-check"
)

TIERS = {
    # cases: Miri case seeds; schedules: Miri seeds per case; native: native case seeds (each = small + big case, pools 1/3/8)
    "C34": {"quick": dict(cases=35, schedules=1, native=3000), "thorough": dict(cases=35, schedules=16, native=60000)},
    "C27": {"quick": dict(cases=12, schedules=1, native=600), "thorough": dict(cases=18, schedules=16, native=9000)},
}
CHUNK = 4  # Miri seeds per Miri process (-Zmiri-many-seeds runs them on parallel threads, sharing the start-up cost)

REAL = {
    "C34": [
        "samyama-optimization: every solver's solve() (29 single-objective variants incl. Rao1-3/QORao1-3, 6 multi-objective variants), common::rng::{solver_rng,child_rng}",
        "rayon 1.11 thread pools (1 and 3 threads under Miri; 1, 3 and 8 natively), crossbeam-deque/epoch, rand/rand_chacha StdRng",
    ],
    "C27": [
        "samyama-graph-algorithms: page_rank, cdlp, GraphView::from_adjacency_list (CSR)",
        "rayon 1.11 thread pools (3 threads, and 1 for boundary cases, under Miri; 1, 3 and 8 natively), std HashMap (RandomState)",
    ],
}
ASSUMPTIONS = {
    "common": [
        "Miri's thread scheduler (seeded by -Zmiri-seed, preemption rate 0.1, yield points) is the interleaving oracle: the schedules it produces are a sample of the interleavings a real rayon pool can produce, not all of them",
        "Miri's borrow tracking, validity, alignment and data-race checks are switched off (crossbeam-epoch trips stacked borrows; UB detection is not the goal); -Zmiri-deterministic-floats is on so that float results do not depend on Miri's own error injection",
        "the native pass is scheduled by the OS: broad but not replayable schedule-wise",
    ],
    "C34": [
        "generated problems are pure functions of the variables built from + - * abs floor max only (no libm), so fitness recomputation is exact",
        "front non-dominance is judged between feasible members only (there Deb's constrained dominance and plain Pareto dominance coincide); multi-objective history is not judged (the crate documents no meaning for it)",
        "best_fitness <= last history entry is checked in addition to history being non-increasing (solvers record the best at the start of each iteration)",
    ],
    "C27": [
        "the sequential references (edge-list PageRank with every iterate kept; sort-based label histogram) are correct renderings of LDBC Graphalytics PR and CDLP",
        "cdlp with max_iterations = k must return the labelling after k synchronous rounds, or an earlier one only if that is a fixed point (then all later rounds equal it): a labelling that merely repeats with period 2 is not converged",
        "graphs are simple (no self-loops, no parallel edges) as in LDBC datasets",
        "page_rank does not expose the number of iterations executed: it is inferred as the reference iterate(s) the result equals within 1e-9 relative",
        "a stopping decision within 1e-12 relative of the tolerance may legitimately go either way against the reference; what is then required is that thread counts/schedules agree with each other",
        "whether more than one rayon worker really took part in a page_rank/cdlp call is not observable through the API; non-trivial is defined by the n >= 1000 branch (see rule)",
    ],
}
RULES = {
    "C34": "case seed -> solver variant = seed mod 35 and four problems (smooth: wide box, sphere/L1/ridge, every draw matters; ties: step/constant objective, many equal fitness values; edgy: a thin (1e-6) or point (lo==hi) coordinate, any objective; corner: asymmetric box whose bounds are decimal fractions (tenths/hundredths/thousandths), small rationals, multiples of pi/e/sqrt2/ln2, random 53-bit values, a few ulps wide, lopsided/positive/negative - lower+upper, upper-lower and the centre are all rounded - with a concave (minus squared / minus L1 distance to a reference point: every corner a local optimum), linear (no zero slope) or distance-to-a-corner objective, so that the solve ends ON the bounds and the solver's clamping / reflection / opposition arithmetic produces the returned coordinates; in-bounds is judged exactly), each = (box dim 1-3 [native big class 1-6], pop 4-8 [4-12], 2-4 iterations [2-8; corner up to 30], per-coordinate bounds, objective (MO: schaffer/conflict/step-pair/constant/far-near/slopes, 2-3 objectives), penalty none/quadratic/step, solver seed). Each case is solved on a 1-thread pool and on a 3-thread pool [native: 1,3,8] in one process; the results must be bit-identical and each must satisfy the invariants. Natively every case seed additionally solves 5 further corner problems on the 1-thread pool (the in-bounds / consistency / history clauses quantify over inputs, not schedules). An evaluation = one execution of one case seed (its problems on all its pools). Non-trivial = the problem's objective was evaluated on >= 2 distinct rayon workers during the multi-thread solve (measured via rayon::current_thread_index inside the objective; solvers that parallelise only non-fitness work therefore count as trivial). Distinct = distinct (solver, case seed, size class).",
    "C27": "case seed -> (kind = seed mod 6: page_rank with iteration cap only / page_rank with a tolerance that clearly stops it / page_rank with the tolerance placed on an iteration's L1 change +-2ulp / cdlp on a random graph x2 / cdlp on a structured graph; random graph of 1000-1003 nodes [native big class: 1-3000, both sides of the threshold] with shuffled non-contiguous ids, 5-40% dangling nodes, uniform or clustered targets, 0-50% reciprocal edges; structured graph = disjoint union of motifs laid over a shuffled index order (matching / paths of 3 / stars / paths / bicliques / cliques / mixed motifs incl. cycles and small random components / one random bipartite graph / motifs next to a random part; random edge directions, 0-100% mutual edges): on these the synchronous labelling settles within a few rounds, mostly into a period-2 oscillation WITHOUT a fixed point (cliques: a fixed point), so the specified labelling depends on the configured round count; damping, redistribution flag, 2-4 iterations [2-30]; cdlp max_iterations: random graphs 2 [native: k and k+1, k in 1-12]; structured graphs s and s+1 where s = the round at which the sequential labelling first repeats (clamped to 2-3 under Miri), natively also a random consecutive pair and one of 30/51/99/100/101 - every count a separate call judged against the reference labelling of exactly that many rounds). Results are compared with the sequential LDBC references (cdlp: labels identical, the reference stops only at a true fixed point or the configured count; page_rank: within 1e-9 relative of the iterate the tolerance selects, sum = 1 when redistributing) and, for boundary cases, between 1 and 3 threads [native: 1,3,8]. Plus, natively, every simple directed graph on <= 4 nodes (cdlp with 4 and 5 rounds). An evaluation = one process-level execution of one case. Non-trivial = n >= 1000 (the crate's rayon branch) on a pool of more than one thread. Distinct = distinct (algorithm, case seed, size class).",
}


def eprint(*a):
    print(*a, file=sys.stderr, flush=True)


def harness_error(msg):
    eprint(f"harness error: {msg}")
    sys.exit(2)


def miri_cmd(prop, case, mode="miri"):
    return ["cargo", TOOLCHAIN, "miri", "run", "--offline", "-q", "--", prop, str(case), mode]


def miri_env(flags):
    env = dict(os.environ)
    env["CARGO_TARGET_DIR"] = TARGET
    env["CARGO_NET_OFFLINE"] = "true"
    env["MIRIFLAGS"] = flags
    env.pop("RUSTFLAGS", None)
    return env


def parse_lines(text):
    """-> list of dict(status, signature, detail, fields, desc, raw)"""
    out = []
    for line in text.splitlines():
        if line.startswith("OK "):
            parts = line.split(" | ")
            out.append(dict(status="OK", head=parts[0], desc=parts[-1], raw=line))
        elif line.startswith("VIOLATION "):
            m = re.match(r"VIOLATION signature=(\S+) detail=(.*?) \| (property=.*?) \| (\{.*\})\s*$", line)
            if m:
                out.append(dict(status="VIOLATION", signature=m.group(1), detail=m.group(2), head=m.group(3), desc=m.group(4), raw=line))
            else:
                out.append(dict(status="VIOLATION", signature="unparsed", detail=line, head="", desc="{}", raw=line))
    for r in out:
        r["fields"] = dict(re.findall(r"(\w+)=(\S+)", r["head"]))
    return out


def count_done(text):
    return len(re.findall(r"^DONE property=", text, flags=re.M))


def run_miri(prop, case, seed_lo, seed_hi, timeout):
    """Run one case under Miri for Miri seeds seed_lo..seed_hi (exclusive)."""
    if seed_hi - seed_lo == 1:
        flags, mode = f"-Zmiri-seed={seed_lo} {MIRI_BASE_FLAGS}", "miri"
    else:
        # many seeds in one Miri process (parallel threads, shared start-up); `miri-all` always exits 0 so
        # that a violating seed does not stop the others; which seed violated is pinned afterwards
        flags, mode = f"-Zmiri-many-seeds={seed_lo}..{seed_hi} {MIRI_BASE_FLAGS}", "miri-all"
    t0 = time.time()
    try:
        p = subprocess.run(miri_cmd(prop, case, mode), cwd=HERE, env=miri_env(flags), capture_output=True, text=True, timeout=timeout)
        rc, so, se = p.returncode, p.stdout, p.stderr
    except subprocess.TimeoutExpired as e:
        rc, so, se = -9, (e.stdout or b"").decode(errors="replace") if isinstance(e.stdout, bytes) else (e.stdout or ""), f"timeout after {timeout}s"
    return dict(case=case, seed_lo=seed_lo, seed_hi=seed_hi, rc=rc, lines=parse_lines(so), done=count_done(so), stderr=se, wall=time.time() - t0, flags=flags)


def run_native(binary, prop, first, count, timeout):
    t0 = time.time()
    try:
        p = subprocess.run([binary, prop, str(first), f"native:{count}"], capture_output=True, text=True, timeout=timeout)
        rc, so, se = p.returncode, p.stdout, p.stderr
    except subprocess.TimeoutExpired:
        rc, so, se = -9, "", f"timeout after {timeout}s"
    return dict(first=first, count=count, rc=rc, lines=parse_lines(so), stderr=se, wall=time.time() - t0)


def load_known(prop, ignore):
    known = {}
    if ignore:
        return known
    path = os.path.join(VERIF_DIR, "known_findings.json")
    if not os.path.exists(path):
        return known
    try:
        v = json.load(open(path))
    except Exception as e:
        harness_error(f"{path} is not valid JSON: {e}")
    for f in v.get("findings", []):
        if f.get("property") == prop and f.get("signature"):
            known[f["signature"]] = f.get("what", "")
    return known


def sanitize(sig):
    return re.sub(r"[^A-Za-z0-9_.-]", "_", sig)


def repro_command(prop, case, miri_seed):
    if miri_seed is None:
        return f"cd {HERE} && CARGO_TARGET_DIR={TARGET} cargo build --release --offline -q && {TARGET}/release/sched-check {prop} {case} native:1"
    return (f"cd {HERE} && CARGO_TARGET_DIR={TARGET} MIRIFLAGS=\"-Zmiri-seed={miri_seed} {MIRI_BASE_FLAGS}\" "
            f"cargo {TOOLCHAIN} miri run --offline -q -- {prop} {case} miri")


def write_replay(prop, v):
    d = os.path.join(VERIF_DIR, "replays")
    os.makedirs(d, exist_ok=True)
    ms = v["miri_seed"]
    name = f"{prop}-{sanitize(v['signature'])}-c{v['case']}m{ms if ms is not None else 'native'}.json"
    path = os.path.join(d, name)
    body = dict(property=prop, case_seed=v["case"], miri_seed=ms, mode="miri" if ms is not None else "native:1",
                signature=v["signature"], detail=v["detail"], case=json_or_text(v["desc"]), miri_flags=MIRI_BASE_FLAGS if ms is not None else None,
                command=repro_command(prop, v["case"], ms),
                replay=f"{os.path.join(HERE, 'run.sh')} {prop} quick --replay {path}",
                note=None if ms is not None else "found by the native (OS-scheduled) pass: the case is exact, the thread interleaving is not replayable")
    with open(path, "w") as f:
        json.dump(body, f, indent=1)
    return path


def json_or_text(s):
    try:
        return json.loads(s)
    except Exception:
        return s


def build_native():
    env = dict(os.environ)
    env["CARGO_TARGET_DIR"] = TARGET
    env["CARGO_NET_OFFLINE"] = "true"
    env.pop("RUSTFLAGS", None)
    p = subprocess.run(["cargo", "build", "--release", "--offline", "-q"], cwd=HERE, env=env, capture_output=True, text=True)
    if p.returncode != 0:
        return None, p.stderr[-3000:]
    return os.path.join(TARGET, "release", "sched-check"), ""


def build_miri(prop):
    """Build for Miri (and prove the toolchain/sysroot work) by interpreting the cheapest mode."""
    p = subprocess.run(["cargo", TOOLCHAIN, "miri", "run", "--offline", "-q", "--", prop, "0", "describe"], cwd=HERE,
                       env=miri_env(f"-Zmiri-seed=0 {MIRI_BASE_FLAGS}"), capture_output=True, text=True)
    if p.returncode != 0 or not p.stdout.startswith("{"):
        return False, (p.stderr or p.stdout)[-3000:]
    return True, ""


def do_replay(prop, path):
    try:
        r = json.load(open(path))
    except Exception as e:
        harness_error(f"cannot read replay {path}: {e}")
    if r.get("property") != prop:
        harness_error(f"replay is for {r.get('property')}, not {prop}")
    case, ms, sig = r["case_seed"], r.get("miri_seed"), r["signature"]
    if ms is None:
        binary, err = build_native()
        if not binary:
            harness_error("native build failed:\n" + err)
        res = run_native(binary, prop, case, 1, 600)
        lines = res["lines"]
    else:
        ok, err = build_miri(prop)
        if not ok:
            harness_error("miri build failed:\n" + err)
        res = run_miri(prop, case, ms, ms + 1, 3600)
        lines = res["lines"]
        if not lines:
            harness_error(f"no result line from Miri (rc={res['rc']}):\n{res['stderr'][-2000:]}")
    hit = False
    for l in lines:
        print(l["raw"])
        if l["status"] == "VIOLATION" and l["signature"] == sig:
            hit = True
    print(f"replay {'REPRODUCED' if hit else 'did NOT reproduce'} signature={sig} property={prop} case={case} miri_seed={ms}")
    sys.exit(1 if hit else 0)


def do_selftest(prop, n, jobs):
    """Determinism of the oracle: n (case seed, Miri seed) pairs, each executed twice in fresh Miri
    processes; the verdict lines (which carry result fingerprints / bit patterns) must be identical."""
    ok, err = build_miri(prop)
    if not ok:
        harness_error("miri build failed:\n" + err)
    seed0 = int(os.environ.get("VERIF_SEED", "1"))
    pairs = [(seed0 * 1000 + k, seed0 * 100 + (k % 3)) for k in range(n)]
    work = [(c, m, rep) for (c, m) in pairs for rep in (0, 1)]
    with cf.ThreadPoolExecutor(max(1, jobs)) as ex:
        res = list(ex.map(lambda w: run_miri(prop, w[0], w[1], w[1] + 1, 3600), work))
    div = 0
    for i in range(0, len(res), 2):
        a = sorted(l["raw"] for l in res[i]["lines"])
        b = sorted(l["raw"] for l in res[i + 1]["lines"])
        if not a or a != b:
            div += 1
            print(f"DIVERGENCE case={work[i][0]} miri_seed={work[i][1]}:\n  {a}\n  {b}")
    print(f"{prop} selftest-determinism: pairs={n} divergences={div}")
    sys.exit(0 if div == 0 else 2)


def main():
    args = sys.argv[1:]
    if len(args) < 1 or args[0] not in TIERS:
        eprint(__doc__)
        sys.exit(2)
    prop = args[0]
    tier = args[1] if len(args) > 1 and not args[1].startswith("--") else os.environ.get("VERIF_TIER", "quick")
    if tier not in ("quick", "thorough"):
        harness_error(f"unknown tier {tier}")
    opts = dict(TIERS[prop][tier])
    jobs = int(os.environ.get("VERIF_JOBS", "16"))
    replay = None
    ignore_known = no_miri = no_native = no_evidence = False
    selftest = 0
    rest = args[2:] if len(args) > 1 and not args[1].startswith("--") else args[1:]
    i = 0
    while i < len(rest):
        a = rest[i]
        def val():
            nonlocal i
            i += 1
            if i >= len(rest):
                harness_error(f"{a} needs a value")
            return rest[i]
        if a == "--replay": replay = val()
        elif a == "--ignore-known": ignore_known = True
        elif a == "--jobs": jobs = int(val())
        elif a == "--cases": opts["cases"] = int(val())
        elif a == "--schedules": opts["schedules"] = int(val())
        elif a == "--native-cases": opts["native"] = int(val())
        elif a == "--no-miri": no_miri = True
        elif a == "--no-native": no_native = True
        elif a == "--no-evidence": no_evidence = True
        elif a == "--selftest-determinism": selftest = int(val())
        else: harness_error(f"unknown argument {a}")
        i += 1
    if replay:
        do_replay(prop, replay)

    if selftest:
        do_selftest(prop, selftest, jobs)
    try:
        verif_seed = int(os.environ.get("VERIF_SEED", "1"))
    except ValueError:
        harness_error("VERIF_SEED is not an integer")
    t0 = time.time()
    known = load_known(prop, ignore_known)
    os.makedirs(TARGET, exist_ok=True)

    first_case = verif_seed * 1000          # Miri cases: first_case .. first_case+cases (native: .. +native, a superset)
    first_sched = verif_seed * 100          # Miri seeds: first_sched .. first_sched+schedules
    cases = list(range(first_case, first_case + opts["cases"]))
    S = opts["schedules"]
    harness_errors = []
    miri_results, native_results = [], []
    exhaustive_line = None
    t_build = {}

    def native_pass():
        tb = time.time()
        binary, err = build_native()
        t_build["native"] = time.time() - tb
        if not binary:
            harness_errors.append("native build failed:\n" + err)
            return
        n = opts["native"]
        nproc = max(1, min(jobs // 2 if not no_miri else jobs, 8))
        per = (n + nproc - 1) // nproc
        with cf.ThreadPoolExecutor(nproc) as ex:
            futs = [ex.submit(run_native, binary, prop, first_case + k * per, min(per, n - k * per), 3600) for k in range(nproc) if k * per < n]
            if prop == "C27":
                fx = ex.submit(subprocess.run, [binary, "C27", "0", "exhaustive"], capture_output=True, text=True, timeout=1800)
            for f in futs:
                native_results.append(f.result())
            if prop == "C27":
                p = fx.result()
                ls = parse_lines(p.stdout)
                if not ls:
                    harness_errors.append(f"exhaustive mode printed nothing (rc={p.returncode}): {p.stderr[-500:]}")
                native_results.append(dict(first=0, count=0, rc=p.returncode, lines=ls, stderr=p.stderr, wall=0.0, exhaustive=True))

    def miri_pass():
        tb = time.time()
        ok, err = build_miri(prop)
        t_build["miri"] = time.time() - tb
        if not ok:
            harness_errors.append("miri build/run failed:\n" + err)
            return
        chunk = min(S, CHUNK)
        nproc = max(1, (jobs if no_native else max(1, jobs - 2)) // chunk)
        work = [(c, lo, min(lo + chunk, first_sched + S)) for c in cases for lo in range(first_sched, first_sched + S, chunk)]
        timeout = 1800 if tier == "quick" else 7200
        with cf.ThreadPoolExecutor(nproc) as ex:
            for r in ex.map(lambda w: run_miri(prop, w[0], w[1], w[2], timeout), work):
                miri_results.append(r)

    with cf.ThreadPoolExecutor(2) as top:
        fs = []
        if not no_native: fs.append(top.submit(native_pass))
        if not no_miri: fs.append(top.submit(miri_pass))
        for f in fs:
            f.result()

    # ---- collect ----
    violations = {}   # signature -> dict(case, miri_seed, detail, desc, count, where)
    evaluations = 0
    nontrivial_keys = set()
    nontrivial_by = {"miri": set(), "native": set()}
    samples = []
    pr_bits = {}      # case -> set of 3-thread bit fingerprints seen across schedules
    per_solver = {}
    miri_execs = 0

    native_seen = set()
    same_pool_flips = []

    def note(line, where, case, miri_seed, seed_range=None):
        nonlocal evaluations
        f = line["fields"]
        if where == "native" and (case, f.get("class")) not in native_seen:
            native_seen.add((case, f.get("class")))
            evaluations += 1
        key = (f.get("class", "?"), f.get("key", "?"))
        if f.get("nontrivial") == "1":
            nontrivial_keys.add(key)
            nontrivial_by[where].add(key)
        if f.get("class") == "exhaustive":
            evaluations += int(f.get("evaluations", "1")) - 1
        if prop == "C34":
            s = per_solver.setdefault(f.get("solver", "?"), dict(runs=0, parallel_runs=0))
            s["runs"] += 1
            s["parallel_runs"] += 1 if f.get("nontrivial") == "1" else 0
        if "same_pool_flip=1" in line["head"]:
            same_pool_flips.append(case)
        if where == "miri" and prop == "C27":
            m = re.search(r"t3:iterate=\S+?,bits=(\w+)", line["head"])
            if m:
                pr_bits.setdefault(case, set()).add(m.group(1))
        if line["status"] == "VIOLATION":
            sig = line["signature"]
            v = violations.setdefault(sig, dict(signature=sig, case=case, miri_seed=miri_seed, detail=line["detail"], desc=line["desc"], count=0, where=where, klass=f.get("class"), seed_range=seed_range))
            v["count"] += 1
            # prefer a Miri witness (replayable schedule) over a native one
            if v["where"] == "native" and where == "miri":
                v.update(case=case, miri_seed=miri_seed, detail=line["detail"], desc=line["desc"], where=where, klass=f.get("class"), seed_range=seed_range)

    for r in miri_results:
        nseeds = r["seed_hi"] - r["seed_lo"]
        got = r["done"]
        miri_execs += got
        evaluations += got
        has_violation = any(l["status"] == "VIOLATION" for l in r["lines"])
        if r["rc"] != 0 and not has_violation:
            harness_errors.append(f"Miri run case={r['case']} seeds={r['seed_lo']}..{r['seed_hi']} failed without a verdict (rc={r['rc']}): {r['stderr'][-1500:]}")
            continue
        if got != nseeds:
            harness_errors.append(f"Miri run case={r['case']} seeds={r['seed_lo']}..{r['seed_hi']}: expected {nseeds} completed executions, got {got} (rc={r['rc']}): {r['stderr'][-800:]}")
        failing = [int(x) for x in re.findall(r"FAILING SEED: (\d+)", r["stderr"])]
        ms = r["seed_lo"] if nseeds == 1 else (failing[0] if failing else None)
        for l in r["lines"]:
            note(l, "miri", r["case"], ms if l["status"] == "VIOLATION" else None, (r["seed_lo"], r["seed_hi"]))
    for r in native_results:
        if r["rc"] not in (0, 1) or (not r["lines"]):
            harness_errors.append(f"native run first={r['first']} count={r['count']} failed (rc={r['rc']}): {r['stderr'][-800:]}")
            continue
        if not r.get("exhaustive") and len(r["lines"]) < 2 * r["count"]:
            harness_errors.append(f"native run first={r['first']}: expected >= {2 * r['count']} verdict lines, got {len(r['lines'])}")
        for l in r["lines"]:
            case = int(l["fields"].get("case", "0"))
            note(l, "native", case, None)
            if l["fields"].get("class") == "exhaustive":
                exhaustive_line = l["head"]

    # samples: a few case descriptions from this run
    seen_kinds = set()
    for r in miri_results + native_results:
        for l in r["lines"]:
            d = json_or_text(l["desc"])
            k = (d.get("solver") or d.get("kind") or d.get("class")) if isinstance(d, dict) else None
            if k in seen_kinds or len(samples) >= 6:
                continue
            seen_kinds.add(k)
            samples.append(dict(case=d, verdict=l["status"], observed=l["head"]))

    # ---- Miri witnesses for violations: pin the Miri seed, confirm in a fresh process ----
    if not no_miri:
        for sig, v in violations.items():
            if v["where"] == "miri" and v["miri_seed"] is None and sig not in known:
                # many-seeds does not say which seed printed the line: try the seeds of that chunk one by one
                lo, hi = v.get("seed_range") or (first_sched, first_sched + S)
                for ms in range(lo, hi):
                    r = run_miri(prop, v["case"], ms, ms + 1, 3600)
                    if any(l["status"] == "VIOLATION" and l["signature"] == sig for l in r["lines"]):
                        v["miri_seed"] = ms
                        break
                if v["miri_seed"] is None:
                    harness_errors.append(f"violation {sig} (case {v['case']}) did not reproduce under any single Miri seed of {lo}..{hi}")
            elif v["where"] == "native" and v.get("klass") == "small" and sig not in known:
                # a native failure of a small case: look for a deterministic Miri witness of the same case
                for ms in range(first_sched, first_sched + 2):
                    r = run_miri(prop, v["case"], ms, ms + 1, 3600)
                    hit = [l for l in r["lines"] if l["status"] == "VIOLATION" and l["signature"] == sig]
                    if hit:
                        v.update(miri_seed=ms, where="miri", detail=hit[0]["detail"], desc=hit[0]["desc"])
                        break

    # ---- verdict ----
    code = 0
    known_met = []
    unknown = 0
    for sig in sorted(violations):
        v = violations[sig]
        if sig in known:
            print(f"KNOWN-FINDING: property={prop} {known[sig]} [signature={sig} met={v['count']}]")
            known_met.append(dict(signature=sig, what=known[sig], met=v["count"]))
        else:
            path = write_replay(prop, v)
            print(f"VIOLATION property={prop} replay={path}")
            print(f"  signature={sig} case={v['case']} miri_seed={v['miri_seed']} found_by={v['where']} occurrences={v['count']} detail={v['detail'][:600]}")
            unknown += 1
            code = 1
    if evaluations == 0:
        harness_errors.append("no evaluations performed")
    if len(nontrivial_keys) < 2 and not (no_miri and no_native):
        harness_errors.append("fewer than 2 non-trivial cases: the exploration does not reach the parallel paths it claims")

    wall = time.time() - t0
    if not no_evidence:
        cov = dict(
            evaluations=evaluations,
            distinct_nontrivial=len(nontrivial_keys),
            distinct_nontrivial_under_miri=len(nontrivial_by["miri"]),
            distinct_nontrivial_native=len(nontrivial_by["native"]),
            rule=RULES[prop],
            samples=samples,
            exhaustive=False,
            miri_executions=miri_execs,
            native_case_executions=evaluations - miri_execs,
            case_seeds=dict(verif_seed=verif_seed, miri=f"{cases[0]}..{cases[-1] + 1}" if cases else "", native=f"{first_case}..{first_case + opts['native']}", derivation="first case = VERIF_SEED*1000; SplitMix64 streams inside the checker"),
            miri_seeds=f"{first_sched}..{first_sched + S}" if not no_miri else "",
            schedules_per_case=S if not no_miri else 0,
            miri_flags=MIRI_BASE_FLAGS,
            native_pools=[1, 3, 8],
            runs_per_hour=int(evaluations / max(wall, 1e-3) * 3600),
            miri_runs_per_hour=int(miri_execs / max(wall, 1e-3) * 3600),
            build_seconds=t_build,
            real_components=REAL[prop],
            stub_components=[],
            known_findings_met=known_met,
            workers=jobs,
        )
        if prop == "C34":
            cov["per_solver"] = per_solver
        else:
            cov["page_rank_same_pool_exit_flips_native"] = dict(count=len(same_pool_flips), cases=same_pool_flips[:10], what="boundary cases where 12 repeated runs on the same 8-thread pool stopped after different iterations")
            cov["page_rank_bit_patterns_per_case_across_schedules"] = {str(k): len(v) for k, v in sorted(pr_bits.items())}
            if exhaustive_line:
                cov["exhaustive_small_graphs"] = exhaustive_line
        if harness_errors:
            cov["harness_errors"] = [h[:2000] for h in harness_errors]
        ev = dict(property_id=prop, tier=tier, seed=verif_seed, level="exploration", coverage=cov,
                  assumptions=ASSUMPTIONS["common"] + ASSUMPTIONS[prop], wall_s=round(wall, 2), violations=unknown)
        d = os.path.join(VERIF_DIR, "evidence")
        os.makedirs(d, exist_ok=True)
        tmp = os.path.join(d, f".{prop}.json.{os.getpid()}")
        with open(tmp, "w") as f:
            json.dump(ev, f, indent=1)
        os.replace(tmp, os.path.join(d, f"{prop}.json"))
    print(f"{prop} {tier}: evaluations={evaluations} (miri={miri_execs}, native={evaluations - miri_execs}) distinct_nontrivial={len(nontrivial_keys)} "
          f"schedules_per_case={S} unknown_violations={unknown} known_findings_met={len(known_met)} wall={wall:.1f}s")
    if harness_errors:
        for h in harness_errors:
            eprint(f"harness error: {h}")
        sys.exit(2)
    sys.exit(code)


if __name__ == "__main__":
    main()
